"""C19 -- the shell tool moves exactly the named bytes and trees, and terminates."""
import io, os, sys, json, subprocess, tempfile, shutil, struct, contextlib, warnings
import lib

SPEC = {
    'rule': 'copy_bytes: contents of 0..200000 bytes (sizes around the 64 KiB buffer) x {BytesIO, BufferedReader over a '
            'short-reading raw file, raw file with readinto, raw file with read only} x read-cap oracles x '
            '{no range from a position, ranges inside / straddling / beyond / past the end / empty / step != 1}; every '
            'case through the real copy_bytes and the extracted model, and the slice specification evaluated on the '
            'implementation output; a read that returns nothing 64 times in a row at the end of the source counts as '
            'divergence (plus a wall-clock watchdog run in a subprocess).  Shell: random command sequences '
            '(cp [-r], mv, rm [-r] [-f], rmdir, mkdir [-p], touch, cat [-o]) through nobodd.sh.main over a host '
            'directory and a two-partition MBR image (FAT12/16/32), paths host / image:N/ / image/ (auto-detected), '
            'expected trees kept in memory and compared after every command with the trees read back through a fresh '
            'DiskImage + FatFileSystem.  Non-trivial = a case that copies at least one byte or changes a tree; '
            'distinct = distinct (source kind, size, caps, range) / distinct command lines in distinct tree states.',
    'trusted_base': [
        'Coq 8.16.1 kernel; vm_compute only in the non-vacuity example (3-byte content)',
        'translator harness/gen_copy.py: COPY_BUFSIZE, fast-path comparison, loop guards, read sizes, decrements, '
        'break-on-empty flags and the statement shapes of copy_bytes/_copy_read_write/_copy_readinto_write',
        'extraction: ExtrOcamlBasic only; runner/driver.ml; OCaml 4.13.1',
        'modelled not verified: the reader abstraction (read/readinto return min(n, remaining, cap) bytes), '
        'memoryview slicing clips to the allocation, target.write appends all bytes it is given',
        'shell half: the in-memory expected-tree interpreter in harness/props/c19.py (POSIX-like cp/mv/rm semantics '
        'as documented by sh.py docstrings), argparse, the host file system',
    ],
    'theorems': {
        'C19_copy_exact_terminates': 'full (all contents, positions, ranges, both loops, short-reading readers in the '
                                     'loops; full reads where the fast path is taken)',
        'C19_fast_path_partial': 'full (single-read fast path on a short-reading raw source: non-empty prefix, terminates)',
        'C19_bad_step_rejected': 'full',
        'shell commands (cp/mv/rm/rmdir/mkdir/touch/cat trees, round trip, failing commands)':
            'theorems over the tree model Shell/Model.v (cp_file_exact, cp_r_tree_exact, roundtrip, mv_moves, mv_across, '
            'rm_removes_exactly, command_frame, failing_command_frame, cat_concat); structural consistency of the IMAGE after a '
            'failing command is oracle-level (extracted structural check)',
    },
    'assumptions': [
        'sources used by the shell tool return full reads unless at end of file (host files and FatPath.open are '
        'io.BufferedReader objects); the fast path (byterange shorter than 64 KiB) relies on this',
        'a read returns at least one byte while data remains and the request is non-empty',
    ],
}

SIZES = [0, 1, 2, 100, 65535, 65536, 65537, 70000, 131071, 131072, 131073, 200000]
BUF = 65536


class Spin(Exception):
    pass


class RawSrc:
    """a raw source with an oracle of read caps; counts empty reads at the end"""
    def __init__(self, data, caps):
        self._d, self._p, self._caps, self._empty = data, 0, list(caps), 0

    def _take(self, n):
        cap = 1 + self._caps.pop(0) if self._caps else n
        k = max(0, min(n, len(self._d) - self._p, cap))
        if k == 0 and n > 0:
            self._empty += 1
            if self._empty > 64:
                raise Spin()
        out = self._d[self._p:self._p + k]
        self._p += k
        return out

    def read(self, n=-1):
        if n is None or n < 0:
            n = max(0, len(self._d) - self._p)
        return self._take(n)

    def seek(self, pos, whence=0):
        self._p = pos
        return pos


class RawSrcRI(RawSrc):
    def readinto(self, buf):
        out = self._take(len(buf))
        buf[:len(out)] = out
        return len(out)


class RawIO(io.RawIOBase):
    """a genuine io.RawIOBase (short reads) to put under io.BufferedReader"""
    def __init__(self, data, caps):
        self._r = RawSrcRI(data, caps)
    def readable(self): return True
    def seekable(self): return True
    def readinto(self, buf): return self._r.readinto(buf)
    def seek(self, pos, whence=0):
        if whence == 0: self._r._p = pos
        elif whence == 1: self._r._p += pos
        else: self._r._p = len(self._r._d) + pos
        return self._r._p
    def tell(self): return self._r._p


class CountingBytesIO(io.BytesIO):
    """io.BytesIO that notices a caller reading nothing over and over at the end"""
    _empty = 0
    def _seen(self, k, n):
        if k == 0 and n > 0:
            self._empty += 1
            if self._empty > 64:
                raise Spin()
    def readinto(self, buf):
        k = super().readinto(buf)
        self._seen(k, len(buf))
        return k
    def read(self, n=-1):
        out = super().read(n)
        self._seen(len(out), 1 if n is None or n < 0 else n)
        return out


WATCHDOG = r'''
import io, sys
from nobodd.transfer import copy_bytes
src = io.BytesIO(bytes(%(n)d)); dst = io.BytesIO()
copy_bytes(src, dst, byterange=range(%(a)d, %(b)d))
print(len(dst.getvalue()))
'''


def watchdog_case(n, a, b, timeout=3):
    try:
        p = subprocess.run([lib.PY, '-c', WATCHDOG % dict(n=n, a=a, b=b)], env=lib.repo_env(),
                           capture_output=True, text=True, timeout=timeout)
    except subprocess.TimeoutExpired:
        return 'TIMEOUT'
    if p.returncode:
        return 'CRASH ' + p.stderr[-300:]
    return int(p.stdout.strip())


def make_source(kind, data, caps):
    if kind == 'bytesio':
        return CountingBytesIO(data), True, []
    if kind == 'buffered':
        return io.BufferedReader(RawIO(data, caps), 4096), True, []
    if kind == 'raw_ri':
        return RawSrcRI(data, caps), True, caps
    return RawSrc(data, caps), False, caps


def run_copy_case(kind, data, caps, pos, rng_):
    """-> (('ok', bytes) | ('err', name), has_readinto, model_caps)"""
    from nobodd.transfer import copy_bytes
    src, has_ri, mcaps = make_source(kind, data, caps)
    dst = io.BytesIO()
    try:
        if rng_ is None:
            src.seek(pos)
            copy_bytes(src, dst)
        else:
            copy_bytes(src, dst, byterange=range(*rng_))
        return ('ok', dst.getvalue()), has_ri, mcaps
    except Spin:
        return ('err', 'OutOfFuel'), has_ri, mcaps
    except Exception as e:
        return ('err', type(e).__name__), has_ri, mcaps


def copy_cases(ctx):
    rng = ctx.rng
    out = []
    sizes = SIZES if ctx.thorough or ctx.widen else [0, 1, 100, 65535, 65536, 65537, 131073, 200000]
    kinds = ['bytesio', 'buffered', 'raw_ri', 'raw_ro']
    for n in sizes:
        data = rng.randbytes(n)
        starts = sorted({0, 1, n // 2, max(0, n - 1), n, n + 5})
        for kind in kinds:
            # no range, from a few positions
            for pos in ([0, n // 3, n, n + 3] if kind != 'buffered' else [0, n // 3]):
                caps = [rng.choice([0, 1, 7, 4095, 65535, 65536, 70000]) for _ in range(rng.randrange(0, 6))]
                out.append((kind, data, caps, pos, None))
            ranges = set()
            for a in starts:
                for d in (0, 1, 65535, 65536, 65537):
                    ranges.add((a, a + d, 1))
                for b in (n - 1, n, n + 1, n + 65536, 2 * n + 70000, a + 200000):
                    if b >= 0:
                        ranges.add((a, b, 1))
            ranges = sorted(ranges)
            if not (ctx.thorough or ctx.widen):
                ranges = rng.sample(ranges, min(len(ranges), 14))
            # the suspect class is always present: a long range reaching past the end of the source
            ranges.append((0, n + 2 * BUF, 1))
            ranges.append((n // 2, n // 2 + 3 * BUF, 1))
            ranges.append((0, 5, rng.choice([2, 3])))
            for r in ranges:
                caps = [rng.choice([0, 1, 7, 4095, 65535, 65536, 70000]) for _ in range(rng.randrange(0, 6))]
                if rng.random() < 0.4:
                    caps = []
                out.append((kind, data, caps, 0, r))
    return out


def check_copy(ctx, R):
    cases = copy_cases(ctx)
    margs, impls = [], []
    for kind, data, caps, pos, r in cases:
        got, has_ri, mcaps = run_copy_case(kind, data, caps, pos, r)
        impls.append((got, has_ri, mcaps))
        margs.append((data, pos, list(mcaps), has_ri, list(r) if r else [], len(mcaps) + len(data) // BUF + 4))
    models = R.batch('copy', margs, chunk=8) if R is not None else [None] * len(margs)
    for (kind, data, caps, pos, r), (got, has_ri, mcaps), mv in zip(cases, impls, models):
        m = R.unres(mv) if mv is not None else None
        n = len(data)
        desc = dict(api='copy_bytes', source=kind, size=n, caps=caps, pos=pos, range=r)
        if r is None:
            want = data[pos:]
        elif r[2] != 1:
            want = None
        else:
            want = data[r[0]:r[1]] if r[1] > r[0] else b''
        ctx.case(('copy', kind, n, tuple(caps), pos, r), bool(want), 'copy-' + kind + ('-range' if r else '-all'))
        if m is not None and got != m:
            ctx.violation('copy_bytes/model-mismatch',
                          f'copy_bytes({kind} of {n} bytes, caps={caps}, pos={pos}, range={r}): implementation '
                          f'{got[0]}:{got[1] if got[0] == "err" else len(got[1])} model {m[0]}:'
                          f'{m[1] if m[0] == "err" else len(m[1])}', dict(desc, impl=short(got), model=short(m)))
        # the property itself, on the implementation
        if got == ('err', 'OutOfFuel'):
            ctx.violation('copy_bytes/diverges',
                          f'copy_bytes never returns: {kind} source of {n} bytes, range={r}: the source ended '
                          f'before the range was exhausted and the loop keeps reading nothing', desc)
        elif want is None:
            if got != ('err', 'ValueError'):
                ctx.violation('copy_bytes/step', f'byterange with step {r[2]} was not rejected: {short(got)}', desc)
        elif got[0] != 'ok':
            ctx.violation('copy_bytes/raises', f'copy_bytes raised {got[1]} ({kind}, {n} bytes, range={r})', desc)
        else:
            short_fast = r is not None and (r[1] - r[0]) < BUF and mcaps
            if short_fast:
                ok = want.startswith(got[1]) and (len(got[1]) > 0 or not want)
            else:
                ok = got[1] == want
            if not ok:
                ctx.violation('copy_bytes/wrong-bytes',
                              f'copy_bytes({kind} of {n} bytes, caps={caps}, pos={pos}, range={r}) wrote '
                              f'{len(got[1])} bytes, expected {len(want)} (content[{r[0] if r else pos}:...])',
                              dict(desc, wrote=len(got[1]), expected=len(want)))
    ctx.sample(dict(api='copy_bytes', source='raw_ri', size=65537, caps=[0, 4095], range=[1, 200000, 1]))
    # real io.BytesIO under a wall-clock watchdog, in a fresh interpreter
    for n, a, b in [(100000, 0, 200000), (100000, 0, 100000), (10, 0, 65536)] + \
                   ([(65536, 65536, 200000), (0, 0, 70000)] if ctx.thorough else []):
        got = watchdog_case(n, a, b)
        ctx.case(('watchdog', n, a, b), True, 'copy-watchdog')
        want = max(0, min(b, n) - a)
        if got == 'TIMEOUT':
            ctx.violation('copy_bytes/diverges',
                          f'copy_bytes(io.BytesIO of {n} bytes, byterange=range({a}, {b})) did not return within 3 s',
                          dict(api='copy_bytes-watchdog', size=n, range=[a, b, 1]))
        elif got != want:
            ctx.violation('copy_bytes/wrong-bytes', f'copy_bytes(BytesIO {n}, range({a},{b})) -> {got}, expected {want} bytes',
                          dict(api='copy_bytes-watchdog', size=n, range=[a, b, 1], got=got))


def short(r):
    if r[0] == 'ok':
        b = bytes(r[1])
        return ['ok', len(b), b[:16].hex()]
    return list(r)


def _dedupe(ctx, per_signature=2):
    """report each signature at most twice so that one noisy class cannot hide the others"""
    seen = {}
    orig = ctx.violation
    def violation(sig, what, replay):
        seen[sig] = seen.get(sig, 0) + 1
        if seen[sig] <= per_signature:
            orig(sig, what, replay)
    ctx.violation = violation


def run(ctx, build):
    _dedupe(ctx)
    try:
        R = ctx.runner('Copy')
    except lib.BuildError:
        R = None                # the proof build is broken as well; still hunt for a concrete input
        ctx.stat('model-unavailable')
    check_copy(ctx, R)
    lib.corr_modules(ctx, SPEC, ['shell_corr'])
    check_shell(ctx)


def autodetect_scenario(ctx, S, w):
    """`image:/path` (no partition number) means the first partition that HOLDS a FAT file system: a partition that merely
    has a FAT type code (unformatted), or a Linux partition, in front of it is skipped"""
    import tempfile, shutil, hashlib
    for first in ('unformatted-fat-typed', 'linux-typed'):
        T = tempfile.mkdtemp(prefix='c19a-')
        try:
            os.mkdir(os.path.join(T, 'host'))
            image = os.path.join(T, 'disk.img')
            layout = S.build_image(image, [['fat16', 40, 1], [ctx.rng.choice(['fat12', 'fat16', 'fat32']), 300, 1]])
            with open(image, 'r+b') as f:
                f.seek(layout[0][0]); f.write(bytes(layout[0][1]))          # partition 1: no file system at all
                if first == 'linux-typed':
                    f.seek(446 + 4); f.write(b'\x83')
            data = bytes(ctx.rng.getrandbits(8) for _ in range(3000))
            with open(os.path.join(T, 'host', 'f.bin'), 'wb') as f:
                f.write(data)
            H, I = os.path.join(T, 'host'), image + ':'
            script = [['cp', H + '/f.bin', I + '/f.bin'], ['mkdir', '-p', I + '/d/e'], ['cat', '-o', I + '/d/twice.bin', H + '/f.bin', I + '/f.bin'],
                      ['mv', I + '/f.bin', I + '/d/e/g.bin'], ['cp', '-r', I + '/d', H + '/out'], ['rm', '-r', I + '/d/e']]
            for argv in script:
                r = w.call({'op': 'sh', 'argv': argv})
                ctx.case(('autodetect', first, argv[0]), True, 'sh-autodetect')
                if r['rc'] != 0:
                    ctx.violation('sh/autodetect/failed', f'disk whose partition 1 is {first} and partition 2 holds the FAT file system: '
                                  f'`{" ".join(a.replace(T + "/", "") for a in argv)}` failed: {r["err"].strip()[-160:]}', dict(first=first, argv=argv[:1]))
                    return
            res = w.call({'op': 'walk', 'image': image, 'parts': [2]})['2']
            want = {'d': ['d'], 'd/twice.bin': ['f', 6000, hashlib.sha1(data + data).hexdigest(), 6000]}
            got = {k: v for k, v in res.get('tree', {}).items()}
            host_out = os.path.join(H, 'out', 'e', 'g.bin')
            if 'error' in res or got != want or not os.path.exists(host_out) or open(host_out, 'rb').read() != data:
                ctx.violation('sh/autodetect/tree', f'partition 1 {first}: after the script partition 2 holds {str(got)[:200]} (expected {want}), '
                              f'copied-out file ok: {os.path.exists(host_out)}', dict(first=first))
                return
        finally:
            shutil.rmtree(T, ignore_errors=True)


def failing_mv_scenario(ctx, S, w):
    """'a failing command leaves every image structurally consistent' for mv inside one partition whose TARGET cannot be
    created: an over-long name, a missing directory, a full fixed root, a full volume.  After each failure the partition must
    pass the complete structural check and hold exactly the tree it held before (the source still there, content intact)."""
    import tempfile, shutil, fatcheck
    for ft in ('fat12', 'fat16', 'fat32'):
        T = tempfile.mkdtemp(prefix='c19m-')
        try:
            os.mkdir(os.path.join(T, 'host'))
            image = os.path.join(T, 'disk.img')
            layout = S.build_image(image, [[ft, 60, 1]])
            data = bytes(ctx.rng.getrandbits(8) for _ in range(2900))
            with open(os.path.join(T, 'host', 'data.bin'), 'wb') as f:
                f.write(data)
            H, I = os.path.join(T, 'host'), image + ':1'
            def sh(*argv):
                return w.call({'op': 'sh', 'argv': list(argv)})
            def state():
                res = w.call({'op': 'walk', 'image': image, 'parts': [1]})['1']
                with open(image, 'rb') as f:
                    f.seek(layout[0][0]); vol = f.read(layout[0][1])
                return res.get('tree'), res.get('error'), fatcheck.fat_consistency(vol, force=True)
            for argv in (['mkdir', I + '/sub'], ['cp', H + '/data.bin', I + '/sub/data.bin'], ['cp', H + '/data.bin', I + '/top.bin']):
                if sh(*argv)['rc'] != 0:
                    ctx.violation('sh/failing-mv/setup', f'{ft}: `{argv[0]} ...` failed while preparing the scenario', dict(fat_type=ft, argv=argv[:1]))
                    return
            def attempt(label, src, dst):
                before = state()
                r = sh('mv', I + src, I + dst)
                after = state()
                ctx.case(('failing-mv', ft, label), True, 'sh-failing-mv')
                ctx.stat('sh-failing-mv-' + ('failed' if r['rc'] else 'succeeded'))
                shown = f'mv img:1{src} img:1{dst if len(dst) < 40 else dst[:12] + "...(" + str(len(dst)) + " chars)"}'
                if after[1] or after[2]:
                    ctx.violation('sh/failing-mv/inconsistent', f'{ft}, {label}: after `{shown}` (exit {r["rc"]}) the partition is not consistent: '
                                  f'{after[1] or after[2][:3]}', dict(fat_type=ft, label=label, src=src, dst_len=len(dst)))
                    return False
                if r['rc'] != 0 and after[0] != before[0]:
                    gone = sorted(set(before[0]) - set(after[0]))[:4]
                    ctx.violation('sh/failing-mv/tree-changed', f'{ft}, {label}: `{shown}` failed ({r["err"].strip()[-80:]!r}) but the tree changed: '
                                  f'no longer there {gone}, new {sorted(set(after[0]) - set(before[0]))[:4]}',
                                  dict(fat_type=ft, label=label, src=src, dst_len=len(dst)))
                    return False
                return True
            if not attempt('over-long target name', '/sub/data.bin', '/' + 'n' * 300):
                return
            if not attempt('over-long target name in the same directory', '/sub/data.bin', '/sub/' + 'm' * 256):
                return
            if not attempt('missing target directory', '/sub/data.bin', '/nodir/x.bin'):
                return
            if not attempt('directory to an over-long name', '/sub', '/' + 'd' * 260):
                return
            # fill the root directory (fixed size on FAT12/16) or the volume (FAT32) with entries, then move into it
            for k in range(700):
                if sh('touch', I + f'/filler with a long name to use slots {k:03d}.x')['rc'] != 0:
                    break
            if not attempt('target directory has no room', '/sub/data.bin', '/moved in with a long name as well.bin'):
                return
            if not attempt('directory into a directory that has no room', '/sub', '/sub moved with a long name too'):
                return
        finally:
            shutil.rmtree(T, ignore_errors=True)


def big_directory_scenario(ctx, S, w):
    """a directory of many long-named files (its entries span several clusters) copied in, moved across partitions, copied
    out and removed with rm -r: exactly the named tree moves, nothing is left behind, every image stays consistent"""
    import tempfile, shutil, hashlib, fatcheck
    T = tempfile.mkdtemp(prefix='c19b-')
    try:
        host = os.path.join(T, 'host')
        os.makedirs(os.path.join(host, 'tree', 'inner'))
        image = os.path.join(T, 'disk.img')
        layout = S.build_image(image, [[ctx.rng.choice(['fat16', 'fat12']), 400, 2], [ctx.rng.choice(['fat32', 'fat16']), 400, 1]])
        want = {}
        for k in range(44):
            rel = ('inner/' if k % 5 == 4 else '') + f'a file with a rather long name number {k:02d}.dat'
            data = bytes((k * 7 + j) % 251 for j in range(k * 37 % 1500))
            with open(os.path.join(host, 'tree', rel), 'wb') as f:
                f.write(data)
            want[rel] = hashlib.sha1(data).hexdigest()
        H, I1, I2 = host, image + ':1', image + ':2'
        def sh(*argv):
            return w.call({'op': 'sh', 'argv': list(argv)})
        def listing(part, top):
            res = w.call({'op': 'walk', 'image': image, 'parts': [part]})[str(part)]
            if 'error' in res:
                return res['error']
            return {k[len(top) + 1:]: v[2] for k, v in res['tree'].items() if k.startswith(top + '/') and v[0] == 'f'}
        def consistent():
            with open(image, 'rb') as f:
                for n, (off, ln) in enumerate(layout, 1):
                    f.seek(off)
                    p = fatcheck.fat_consistency(f.read(ln), force=True)
                    if p:
                        return f'partition {n}: {p[:3]}'
            return None
        steps = [(['cp', '-r', H + '/tree', I1 + '/tree'], lambda: listing(1, 'tree') == want, 'cp -r host -> partition 1'),
                 (['mv', I1 + '/tree', I2 + '/moved'], lambda: listing(2, 'moved') == want and listing(1, 'tree') == {}, 'mv partition 1 -> partition 2'),
                 (['cp', '-r', I2 + '/moved', H + '/back'], lambda: {os.path.relpath(os.path.join(d, f), os.path.join(H, 'back')): hashlib.sha1(open(os.path.join(d, f), 'rb').read()).hexdigest()
                                                              for d, _, fs_ in os.walk(os.path.join(H, 'back')) for f in fs_} == want, 'cp -r partition 2 -> host'),
                 (['rm', '-r', I2 + '/moved'], lambda: listing(2, 'moved') == {} and not any(k == 'moved' for k in w.call({'op': 'walk', 'image': image, 'parts': [2]})['2'].get('tree', {})), 'rm -r on partition 2')]
        for argv, ok, label in steps:
            r = sh(*argv)
            ctx.case(('big-directory', label), True, 'sh-big-directory')
            bad = consistent()
            if r['rc'] != 0 or bad or not ok():
                ctx.violation('sh/big-directory', f'a directory of 44 long-named files (entries over several clusters): {label} exited {r["rc"]} '
                              f'({r["err"].strip()[-120:]!r}); images consistent: {bad or "yes"}; the tree is where it should be: {bool(r["rc"] == 0 and not bad and ok())}',
                              dict(step=label))
                return
    finally:
        shutil.rmtree(T, ignore_errors=True)


def check_shell(ctx):
    from props import c19_shell as S
    rng = ctx.rng
    w = S.Worker()
    found = {}
    S.STATS.clear()
    try:
        autodetect_scenario(ctx, S, w)
        if ctx.violations:
            return
        failing_mv_scenario(ctx, S, w)
        if ctx.violations:
            return
        big_directory_scenario(ctx, S, w)
        if ctx.violations:
            return
        seqs = []
        sizes = S.SIZES if ctx.thorough else [0, 1, 65535, 65536, 65537, 131073]
        for size in sizes:
            seqs.append(('roundtrip', S.roundtrip_sequence(rng, size)))
        for ft in ('fat12', 'fat16', 'fat32'):
            seqs.append(('dirmove', S.dirmove_sequence(rng, ft)))
        nseq = 3000 if ctx.thorough else (700 if ctx.widen else 400)
        for _ in range(nseq):
            seqs.append(('random', S.gen_sequence(rng, rng.randrange(6, 20))))
        for kind, seq in seqs:
            r = S.run_sequence(w, seq)
            ncmd = sum(1 for c in seq.cmds if c['op'] != 'put')
            done = ncmd if r is None else sum(1 for c in seq.cmds[:r[2] + 1] if c['op'] != 'put')
            for i in range(done):
                ctx.case(('sh', json.dumps(seq.to_json(), sort_keys=True), i), True, 'sh-' + kind)
            for c in seq.cmds[:(r[2] + 1) if r else len(seq.cmds)]:
                if c['op'] != 'put':
                    ctx.stat('sh-cmd-' + c['op'])
            if r and r[0] not in found:
                small = S.shrink(w, seq, r[0])
                r2 = S.run_sequence(w, small) or r
                log = []
                S.run_sequence(w, small, log)
                found[r[0]] = True
                ctx.violation(r[0], r2[1] + '  [replay: ' + '; '.join(l[0] for l in log) + ']',
                              dict(api='sh', sequence=small.to_json(), transcript=log))
    finally:
        w.close()
    for k, v in S.STATS.items():
        ctx.stat(k, v)
    ctx.sample(dict(api='sh', sequence=['put host/src.bin (65537 bytes)', 'mkdir -p img:1/d1/sub', 'cp host/src.bin img:1/d1/sub/in.bin',
                                        'cp -r img:1/d1 img:2/copy', 'mv img:2/copy/sub/in.bin img:2/moved.bin',
                                        'cp img:2/moved.bin host/back.bin', 'cat ... -o host/twice.bin', 'rm -r img:1/d1']))


def replay(ctx, obj):
    r = obj['replay']
    print(json.dumps(r, indent=1)[:3000])
    if r.get('api') == 'copy_bytes-watchdog':
        got = watchdog_case(r['size'], r['range'][0], r['range'][1])
        print('now:', got)
        return got == max(0, min(r['range'][1], r['size']) - r['range'][0])
    if r.get('api') == 'sh':
        from props import c19_shell as S
        w = S.Worker()
        try:
            log = []
            res = S.run_sequence(w, S.Seq(r['sequence']['vols'], r['sequence']['cmds']), log)
        finally:
            w.close()
        for l in log:
            print('  ', l)
        print('now:', res)
        return res is None
    if r.get('api') == 'copy_bytes':
        data = bytes(r['size'])
        got, _, _ = run_copy_case(r['source'], data, r['caps'], r['pos'], tuple(r['range']) if r['range'] else None)
        print('now:', short(got))
        want = data[r['pos']:] if not r['range'] else data[r['range'][0]:r['range'][1]]
        return got == ('ok', want)
    return False
