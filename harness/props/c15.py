"""C15 -- Mid-operation states are flagged dirty and never harm unrelated files."""
import json, warnings, copy
import lib, fatimg, fatspec, fatops, fattrace
from props.c04 import new_volume, GUARD, jsonable_op, canon_spec, tree_diff
from props import c10

SPEC = {
    'rule': 'operations of seeded histories (as C04) and of the out-of-space cases (as C10) are run with the image diffed at '
            'every executed line of fs.py / path.py; EVERY distinct intermediate image (a possible crash point) is given to the '
            'extracted Coq specification reader: on FAT16/32, if its structural check reports anything the dirty flag must be '
            'set; at the end of the operation (return or raise) the flag must equal its initial value with the volume '
            'consistent; on every FAT type every file that is not the target (nor the rename destination) must be found '
            'under its long and short name with unchanged content at every intermediate image. Non-trivial = operation with '
            '>= 2 intermediate images; distinct = distinct (history, operation).',
    'trusted_base': [
        'Coq 8.16.1 kernel; theorems closed under the global context',
        'translator gen_fatskel.py (mutation skeleton: every mutation site lies inside mark_dirty or is whitelisted)',
        'harness/fattrace.py line-level diffing: several stores made by ONE source line / C call are seen as one step '
        '(torn multi-byte stores inside one struct.pack_into / slice assignment are treated as atomic)',
        'Fat/Spec.v + Fat/Check.v as oracle',
    ],
    'theorems': {},
    'assumptions': ['a crash point is a point between two executed source lines'],
}


def bystanders(tree, skip):
    """{path: (name, sfn-less) -> data} of every file except the skipped paths"""
    out = {}
    def go(n, path):
        for k in n['children'].values():
            p = path + '/' + k['name']
            if k['kind'] == 'file':
                if p.upper() not in skip:
                    out[p] = bytes(k['data'])
            else:
                go(k, p)
    go(tree.root, '')
    return out


def spec_files(node, path=''):
    out = {}
    for k in node['children']:
        p = path + '/' + k['name']
        if k['kind'] == 'file':
            out[p.upper()] = (k['data'], k['sfn'])
        else:
            out.update(spec_files(k, p))
    return out


def spec_files_by_alias(node, path='', apath=''):
    out = {}
    for k in node['children']:
        if k['kind'] == 'file':
            out[(apath + '/' + k['sfn']).upper()] = k['data']
        else:
            out.update(spec_files_by_alias(k, path + '/' + k['name'], apath + '/' + k['sfn']))
    return out


def spec_alias_paths(node, path='', apath=''):
    """{long path (upper) : all-alias path (upper)} of every file"""
    out = {}
    for k in node['children']:
        if k['kind'] == 'file':
            out[(path + '/' + k['name']).upper()] = (apath + '/' + k['sfn']).upper()
        else:
            out.update(spec_alias_paths(k, path + '/' + k['name'], apath + '/' + k['sfn']))
    return out


def fat_copies_differ_only_in_entry1(g, vol):
    size = g.fat_sectors * g.bps
    first = vol[g.fat_off:g.fat_off + size]
    lo, hi = {12: (1, 3), 16: (2, 4), 32: (4, 8)}[g.bits]
    for k in range(1, g.nfats):
        other = vol[g.fat_off + k * size:g.fat_off + (k + 1) * size]
        if first[:lo] != other[:lo] or first[hi:] != other[hi:]:
            return False
    return True


def examine(ctx, R, g, events, before_tree, op, info, initial_dirty_clear=True):
    """check every intermediate image of one operation"""
    skip = {op['path'].upper()}
    if 'target' in op:
        skip.add(op['target'].upper())
    watch = bystanders(before_tree, skip)
    # a renamed / removed directory takes its content with it: those files are targets too
    watch = {p: d for p, d in watch.items() if not any((p.upper() + '/').startswith(s + '/') for s in skip)}
    pokes = [e for e in events if e[0] == 'poke']
    alias_of = {}       # long path -> alias path, learnt from the images in which the long name is visible
    for k, ev in enumerate(pokes):
        vol = ev[3][GUARD:len(ev[3]) - GUARD]
        probs = fatspec.spec_wf(R, vol)
        names = [p[0] for p in probs]
        last = (k == len(pokes) - 1)
        if g.fat_type != 'fat12':
            inconsistent = [p for p in probs if p[0] != 'dirty flag set']
            if inconsistent and 'dirty flag set' not in names:
                rest = []
                for pr in inconsistent:
                    if pr[0] == 'FAT copies differ' and fat_copies_differ_only_in_entry1(g, vol):
                        # the flag itself is being rewritten copy by copy (primary copy first): see known_findings.json
                        ctx.violation('fs.dirty/flag-restored-in-primary-copy-first',
                                      f'{jsonable_op(op)}: while the clean flag is written back, the primary FAT copy already says '
                                      f'clean and a later copy still says dirty (copies differ in entry 1 only)', dict(info, step=k))
                    elif pr[0] == 'empty file owns a cluster' and op['op'] in ('truncate', 'write', 'seekwrite', 'append', 'touch', 'session'):
                        # by design an open file truncated to zero keeps its first cluster until close(): see known_findings.json
                        ctx.violation('fs.dirty/open-empty-file-keeps-cluster',
                                      f'{jsonable_op(op)}: between truncate-to-zero and close() the (open) target file has size 0 but '
                                      f'still owns cluster {pr[1]}, outside any dirty bracket', dict(info, step=k))
                    else:
                        rest.append(pr)
                if rest:
                    ctx.violation('fs.dirty/inconsistent-but-clean',
                                  f'{jsonable_op(op)}: intermediate image {k + 1}/{len(pokes)} is inconsistent ({rest[:2]}) but the dirty flag is clear',
                                  dict(info, step=k))
                    return False
        if probs and probs[0][0] == 'unreadable':
            ctx.violation('fs.dirty/unreadable-intermediate', f'{jsonable_op(op)}: intermediate image {k + 1} cannot be read at all', dict(info, step=k))
            return False
        geom, spec = fatspec.spec_abs(R, vol)
        have = spec_files(spec)
        alias = spec_files_by_alias(spec)
        for lp, ap in spec_alias_paths(spec).items():
            alias_of.setdefault(lp, ap)
        for p, data in watch.items():
            got = have.get(p.upper())
            if got is None and alias.get(alias_of.get(p.upper())) == data:
                # "still present, under its long OR short name": while a directory is being compacted an entry may be
                # listed under its 8.3 name only (theorem FatCrash.bystanders_intact_x states exactly this bound)
                ctx.stat('bystander-visible-by-short-name-only')
                continue
            if got is None or got[0] != data:
                ctx.violation('fs.crash/bystander-harmed',
                              f'{jsonable_op(op)}: at intermediate image {k + 1}/{len(pokes)} the unrelated file {p!r} is '
                              f'{"missing" if got is None else "changed"}', dict(info, step=k, bystander=p))
                return False
        if last:
            if probs:
                ctx.violation('fs.dirty/not-restored:' + str(probs[0][0]),
                              f'{jsonable_op(op)}: when the operation ended the volume reports {probs[:3]}', dict(info, step=k))
                return False
    return True


def run(ctx, build):
    lib.corr_modules(ctx, SPEC, ['fat_dir_corr', 'fat_crash_corr'])
    R = ctx.runner('Fat')
    rng = ctx.rng
    nhist = 24 if ctx.thorough else 5
    if ctx.widen:
        nhist *= 2
    images = 0
    for h in range(nhist):
        g, buf, t = new_volume(rng, ctx.thorough, populated=True, fat_types=('fat12', 'fat16', 'fat16', 'fat32', 'fat32'))
        tr = fattrace.Tracer(buf, slice(GUARD, len(buf) - GUARD))
        fs = tr.open_fs()
        history = []
        try:
            for i in range(30 if ctx.thorough else 22):
                op = fatops.gen_op(rng, t, g.cs, sessions=True)
                need = len(op.get('data', b'')) // g.cs + 4 + (op.get('pos', 0) + op.get('size', 0)) // g.cs
                if t.used_clusters(g.cs) + need > g.n_clusters - 6:
                    continue
                before = copy.deepcopy(t)
                fatops.apply_model(t, op)
                res, events = tr.run(lambda: fatops.apply_impl(fs, op))
                jop = jsonable_op(op)
                history.append(jop)
                n = sum(1 for e in events if e[0] == 'poke')
                images += n
                ctx.case((h, i, json.dumps(jop, sort_keys=True)), n >= 2, op['op'])
                info = dict(geometry={k: v for k, v in vars(g).items()}, history=history, intermediate_images=n)
                if not examine(ctx, R, g, events, before, op, info):
                    return
            ctx.sample(dict(fat_type=g.fat_type, ops=len(history), last=history[-1] if history else None))
        finally:
            try:
                fs.close()
            except Exception:
                pass
    # ---- the scripted corner-case histories of C04 (each needs something specific), every intermediate image ----------
    from props import c04
    for ft in (('fat16', 'fat12', 'fat32') if ctx.thorough else ('fat16', 'fat12')):
        g = fatimg.Geometry(ft, 160, spc=1, bps=512, nfats=2, root_entries=128, fsinfo=True, type_string=True)
        for label, ops in c04.scripts(g.cs):
            if label in ('dot-components', 'many-names-sharing-six-alias-characters') or (not ctx.thorough and label not in ('first-cluster-reused-after-rmdir', 'alias-candidate-equals-an-upper-cased-long-name')):
                continue
            if not ctx.thorough and (label, ft) in (('first-cluster-reused-after-rmdir', 'fat12'), ('alias-candidate-equals-an-upper-cased-long-name', 'fat16')):
                continue            # quick tier: each of the two scripts on one FAT type
            b = fatimg.Builder(g, rng)
            buf = bytearray(b'\xA5' * GUARD) + b.img + bytearray(b'\x5A' * GUARD)
            tr = fattrace.Tracer(buf, slice(GUARD, len(buf) - GUARD))
            fs = tr.open_fs()
            t = fatops.Tree()
            history = []
            try:
                for i, op in enumerate(ops):
                    if '_expect' in op:
                        continue          # outcomes the plain model cannot derive: C04 judges them
                    before = copy.deepcopy(t)
                    fatops.apply_model(t, op)
                    res, events = tr.run(lambda: fatops.apply_impl(fs, op))
                    jop = jsonable_op(op)
                    history.append(jop)
                    n = sum(1 for e in events if e[0] == 'poke')
                    images += n
                    ctx.case(('script', ft, label, i), n >= 2, 'script-' + label)
                    info = dict(geometry={k: v for k, v in vars(g).items()}, script=label, history=history, intermediate_images=n)
                    if not examine(ctx, R, g, events, before, op, info):
                        return
            finally:
                try:
                    fs.close()
                except Exception:
                    pass
    # ---- one path object creates a file, writes through the handle and is then used to remove it (C10's recovery
    #      history): every intermediate image of the unlink, and a consistent volume at its end
    for ft in ('fat16', 'fat32', 'fat12'):
        g = fatimg.Geometry(ft, 60, spc=1, bps=512, nfats=2, root_entries=64, fsinfo=True, type_string=True)
        b = fatimg.Builder(g, rng)
        buf = bytearray(b'\xA5' * GUARD) + b.img + bytearray(b'\x5A' * GUARD)
        tr = fattrace.Tracer(buf, slice(GUARD, len(buf) - GUARD))
        fs = tr.open_fs()
        t = fatops.Tree()
        try:
            for op in (dict(op='write', path='/bystander.bin', data=bytes(range(200)) * 4, via='bytes'), dict(op='mkdir', path='/d')):
                fatops.apply_model(t, op)
                fatops.apply_impl(fs, op)
            obj = fs.root / 'd' / 'made and removed by one object.bin'
            payload = bytes(rng.getrandbits(8) for _ in range(3 * g.cs + 5))
            with obj.open('wb') as f:
                f.write(payload)
            wop = dict(op='write', path='/d/made and removed by one object.bin', data=payload, via='bytes')
            fatops.apply_model(t, wop)
            before = copy.deepcopy(t)
            uop = dict(op='unlink', path='/d/made and removed by one object.bin')
            fatops.apply_model(t, uop)
            def same_object_unlink():
                try:
                    obj.unlink()
                    return ('unlink', 'ok')
                except Exception as e:          # noqa: BLE001
                    return ('unlink', fatops.exc_class(e))
            res, events = tr.run(same_object_unlink)
            n = sum(1 for e in events if e[0] == 'poke')
            images += n
            ctx.case(('same-object-unlink', ft), n >= 2, 'same-object-unlink')
            info = dict(fat_type=ft, case='unlink through the path object that created and wrote the file', outcome=str(res)[:60], intermediate_images=n)
            if not examine(ctx, R, g, events, before, uop, info):
                return
        finally:
            try:
                fs.close()
            except Exception:
                pass
    # ---- operations that fail for lack of space (C10's cases), every intermediate image --------------
    combos = [('fat16', 0, False), ('fat32', 0, True), ('fat12', 0, False)]
    for ft, extra, fsinfo in combos:
        for label, mkop, scalable in c10.CASES:
            for free in ((0, 1, 2) if scalable else (0, 1)):
                g, b, t = c10.make(rng, ft, free, extra, fsinfo, 32, c10.SUBDIR_FILL.get(label, False))
                op = mkop(g.cs, 3 if scalable else 0)
                buf = bytearray(b'\xA5' * GUARD) + b.img + bytearray(b'\x5A' * GUARD)
                tr = fattrace.Tracer(buf, slice(GUARD, len(buf) - GUARD))
                fs = tr.open_fs()
                try:
                    before = copy.deepcopy(t)
                    res, events = tr.run(lambda: fatops.apply_impl(fs, op))
                    n = sum(1 for e in events if e[0] == 'poke')
                    images += n
                    ctx.case(('enospc', ft, label, free), n >= 2, 'enospc-' + label)
                    info = dict(fat_type=ft, free_clusters=free, case=label, op=jsonable_op(op), outcome=str(res[1])[:60], intermediate_images=n)
                    if not examine(ctx, R, g, events, before, op, info):
                        return
                finally:
                    try:
                        fs.close()
                    except Exception:
                        pass
    # ---- creation in a FULL fixed root that holds deleted entries: the directory is compacted in place ----------
    # (every way of creating an entry must have the volume flagged dirty while the records are being moved)
    creators = [('open-ab', lambda p: dict(op='append', path=p, data=b'appended')),
                ('open-wb', lambda p: dict(op='write', path=p, data=b'written', via='open')),
                ('open-xb', lambda p: dict(op='write', path=p, data=b'exclusive', via='exclusive')),
                ('write_bytes', lambda p: dict(op='write', path=p, data=b'bytes', via='bytes')),
                ('touch', lambda p: dict(op='touch', path=p)), ('mkdir', lambda p: dict(op='mkdir', path=p)),
                ('session-a+b', lambda p: dict(op='session', path=p, mode='a+b', buffering=0, steps=[('write', b'xy')], pos=0, size=2))]
    for ft in ('fat16', 'fat12'):
        for label, mk in creators:
            g = fatimg.Geometry(ft, 40, spc=1, bps=512, nfats=2, root_entries=16, type_string=True)
            b = fatimg.Builder(g, rng)
            t = fatops.Tree()
            used_aliases = set()
            k = 0
            while len(b.dirs[id(b.tree)]['slots']) < 16:
                free_slots = 16 - len(b.dirs[id(b.tree)]['slots'])
                data = bytes([k + 1]) * 10
                if k == 2 and free_slots >= 4:
                    nm = f'long file name number {k}.txt'           # a long-named bystander (4 slots) among the short ones
                    b.add(b.tree, nm, fatimg.alias_for(nm, used_aliases), data=data)
                else:
                    nm = f'R{k}.BIN'
                    b.add(b.tree, nm, (nm.split('.')[0].encode().ljust(8), b'BIN'), data=data, lfn=False)
                t.root['children'][nm.upper()] = {'kind': 'file', 'name': nm, 'data': bytearray(data)}
                k += 1
            short = [v['name'] for v in t.root['children'].values() if v['name'].startswith('R')]
            buf = bytearray(b'\xA5' * GUARD) + b.img + bytearray(b'\x5A' * GUARD)
            tr = fattrace.Tracer(buf, slice(GUARD, len(buf) - GUARD))
            fs = tr.open_fs()
            try:
                for nm in [short[i] for i in (1, 2, 4, 5, 7, 8) if i < len(short) - 1]:      # scattered deleted entries, none at the end
                    fatops.apply_impl(fs, dict(op='unlink', path='/' + nm))
                    del t.root['children'][nm.upper()]
                op = mk('/a name needing four slots in all.txt')
                before = copy.deepcopy(t)
                fatops.apply_model(t, op)
                res, events = tr.run(lambda: fatops.apply_impl(fs, op))
                n = sum(1 for e in events if e[0] == 'poke')
                images += n
                ctx.case(('compaction', ft, label), n >= 2, 'root-compaction-' + label)
                info = dict(fat_type=ft, case='creation in a full root with deleted entries (in-place compaction)', creator=label,
                            op=jsonable_op(op), outcome=str(res)[:60], intermediate_images=n)
                if res[1] != 'ok':
                    ctx.violation('fs.dirty/compaction-outcome', f'{label}: creating an entry in a full root with six deleted entries gave {res}', info)
                    return
                if not examine(ctx, R, g, events, before, op, info):
                    return
            finally:
                try:
                    fs.close()
                except Exception:
                    pass
    ctx.extra['intermediate_images_checked'] = images


def replay(ctx, obj):
    print(json.dumps(obj, indent=1)[:4000])
    return False
