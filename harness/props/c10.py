"""C10 -- Running out of space fails cleanly with ENOSPC and a consistent volume."""
import json, warnings, copy
import lib, fatimg, fatspec, fatops
from props.c04 import canon_spec, canon_nobodd, tree_diff, GUARD, jsonable_op

SPEC = {
    'rule': 'fault enumeration: for every allocating operation (write, append, growing truncate, seek-past-end write, '
            'create, mkdir, rename to a new name, directory growth) and every number of free clusters / free root slots '
            'from 0 up to what the operation needs, on FAT12/16/32 with and without a valid FSInfo sector and with FATs '
            'that have more entries than the data area has clusters: the volume is pre-filled by an independent writer, the '
            'operation is run through the public API, and the outcome must be success with full content or an ENOSPC '
            'OSError with the Coq structural check clean, every other file intact, the target a prefix (truncate all-or-'
            'nothing); then space is freed and the operation must succeed. Non-trivial = the operation hit ENOSPC; '
            'distinct = distinct (geometry, operation, free count).',
    'trusted_base': [
        'Coq 8.16.1 kernel; theorems closed under the global context',
        'translator gen_fat.py (table limits); extraction + runner; harness/fatimg.py; Fat/Spec.v + Fat/Check.v as oracle',
    ],
    'theorems': {},
    'assumptions': ['cluster 2 is never handed out by nobodd\'s allocator on FAT12/16 (observation, not counted as usable space)'],
}


def make(rng, ft, free_clusters, extra, fsinfo, root_entries=32, subdir_full=False):
    """volume whose data area has exactly `free_clusters` usable free clusters"""
    g = fatimg.Geometry(ft, 40, spc=1, bps=512, nfats=2, root_entries=root_entries, extra_fat_entries=extra,
                        fsinfo=fsinfo, type_string=True)
    b = fatimg.Builder(g, rng)
    t = fatops.Tree()
    used = set()
    def add(parent_b, parent_t, name, data=None, is_dir=False):
        alias = fatimg.alias_for(name, used)
        n = b.add(parent_b, name, alias, data=data, is_dir=is_dir)
        tn = {'kind': 'dir', 'name': name, 'children': {}} if is_dir else {'kind': 'file', 'name': name, 'data': bytearray(data)}
        parent_t['children'][name.upper()] = tn
        return n, tn
    add(b.tree, t.root, 'keep1.bin', bytes(rng.getrandbits(8) for _ in range(700)))
    sub_b, sub_t = add(b.tree, t.root, 'sub', is_dir=True)
    add(sub_b, sub_t, 'inner.txt', b'inner file content' * 20)
    add(b.tree, t.root, 'victim.dat', bytes(rng.getrandbits(8) for _ in range(1100)))
    add(b.tree, t.root, 'empty.dat', b'')
    if subdir_full:
        # fill the sub-directory's only cluster completely (16 slots of 32 bytes in 512)
        k = 0
        while len(b.dirs[id(sub_b)]['slots']) < (16 if subdir_full is True else int(subdir_full)):
            nm = f'F{k}.X'
            b.add(sub_b, nm, (nm.split('.')[0].encode().ljust(8), b'X  '), data=b'', lfn=False)
            sub_t['children'][nm.upper()] = {'kind': 'file', 'name': nm, 'data': bytearray()}
            k += 1
    nfree = len(b.free)
    fill = nfree - free_clusters
    if fill > 0:
        add(b.tree, t.root, 'filler.big', bytes(fill * g.cs))
    return g, b, t


CASES = [
    # (label, op builder given cs, clusters of payload)
    ('write-new', lambda cs, k: dict(op='write', path='/new file.bin', data=bytes(range(256)) * (k * cs // 256) + b'x', via='open'), True),
    ('append', lambda cs, k: dict(op='append', path='/victim.dat', data=b'A' * (k * cs)), True),
    ('truncate-grow', lambda cs, k: dict(op='truncate', path='/victim.dat', size=1100 + k * cs, buffering=0), True),
    ('seek-past-end', lambda cs, k: dict(op='seekwrite', path='/victim.dat', pos=1100 + k * cs, data=b'tail', buffering=0), True),
    ('truncate-grow-empty', lambda cs, k: dict(op='truncate', path='/empty.dat', size=k * cs - 5, buffering=0), True),
    ('seek-past-end-empty', lambda cs, k: dict(op='seekwrite', path='/empty.dat', pos=k * cs + 1, data=b'tail', buffering=-1), True),
    ('mkdir', lambda cs, k: dict(op='mkdir', path='/sub/newdir'), False),
    ('create-in-full-subdir', lambda cs, k: dict(op='write', path='/sub/a rather long new name.txt', data=b'', via='open'), False),
    ('rename-into-full-subdir', lambda cs, k: dict(op='rename', path='/keep1.bin', target='/sub/renamed with a long name.bin'), False),
    # the directory's last cluster has room for SOME of the records the new name needs (3 long-name records + the entry), the
    # rest needs a cluster the volume cannot give: all or nothing
    ('create-in-nearly-full-subdir', lambda cs, k: dict(op='write', path='/sub/a rather long new name.txt', data=b'', via='open'), False),
    ('mkdir-in-nearly-full-subdir', lambda cs, k: dict(op='mkdir', path='/sub/a new directory with a long name'), False),
    ('rename-into-nearly-full-subdir', lambda cs, k: dict(op='rename', path='/keep1.bin', target='/sub/renamed with a long name.bin'), False),
]
SUBDIR_FILL = {'create-in-full-subdir': True, 'rename-into-full-subdir': True, 'create-in-nearly-full-subdir': 14,
               'mkdir-in-nearly-full-subdir': 15, 'rename-into-nearly-full-subdir': 13}


def run_case(ctx, R, rng, FatFileSystem, ft, free, extra, fsinfo, label, mkop, k, subdir_full=False, root_entries=32):
    g, b, t = make(rng, ft, free, extra, fsinfo, root_entries, subdir_full)
    op = mkop(g.cs, k)
    buf = bytearray(b'\xA5' * GUARD) + b.img + bytearray(b'\x5A' * GUARD)
    info = dict(fat_type=ft, free_clusters=free, extra_fat_entries=extra, fsinfo=fsinfo, op=jsonable_op(op), case=label,
                subdir_full=subdir_full, root_entries=root_entries)
    sig = f'fs.enospc/{label}'
    pre = fatspec.spec_wf(R, bytes(b.img))
    if pre:
        ctx.violation('harness/prefill-not-wf', f'pre-filled volume is not well-formed: {pre[:3]}', info)
        return
    with warnings.catch_warnings():
        warnings.simplefilter('ignore')
        fs = FatFileSystem(memoryview(buf)[GUARD:len(buf) - GUARD])
    try:
        before = copy.deepcopy(t)
        after = copy.deepcopy(t)
        want = fatops.apply_model(after, op)
        got = fatops.apply_impl(fs, op)
        ctx.case((ft, free, extra, fsinfo, label, k, subdir_full, root_entries), got == 'ENOSPC', f'{label}-{got}')
        vol = bytes(buf[GUARD:len(buf) - GUARD])
        if got not in ('ok', 'ENOSPC'):
            ctx.violation(sig + '/other-exception', f'{label} with {free} free clusters on {ft} raised {got} instead of succeeding or ENOSPC', info)
            return
        probs = fatspec.spec_wf(R, vol)
        if probs:
            ctx.violation(sig + '/structural:' + str(probs[0][0]), f'{label} with {free} free clusters on {ft} ({got}): structural check fails: {probs[:4]}', info)
            return
        geom, spec = fatspec.spec_abs(R, vol)
        seen = canon_spec(spec)
        if got == 'ok':
            d = tree_diff(after.canon(), seen)
            if d:
                ctx.violation(sig + '/silent-data-loss', f'{label} with {free} free clusters on {ft} reported success but: {d}', info)
                return
        else:
            # every other file intact; the target holds a prefix (truncate: all or nothing; tree ops: unchanged or complete)
            tpath = op.get('target', op['path'])
            bt, at = before.canon(), after.canon()
            def strip(tree, name):
                return ('D', tree[1], [strip(k, name) if k[0] == 'D' else k for k in tree[2] if k[1].upper() != name.upper()])
            leaf = tpath.rsplit('/', 1)[1]
            src_leaf = op['path'].rsplit('/', 1)[1]
            d = tree_diff(strip(strip(bt, leaf), src_leaf), strip(strip(seen, leaf), src_leaf))
            if d:
                ctx.violation(sig + '/bystander-damaged', f'{label} failed with ENOSPC on {ft} and other entries changed: {d}', info)
                return
            node = fatspec.flat(seen).get(tpath) or fatspec.flat(seen).get(tpath.upper())
            exp_new = after.get(tpath)
            old = before.get(op['path'])
            if op['op'] in ('write', 'append', 'seekwrite') and node is not None and exp_new not in (None, 'notdir'):
                data = node[2]
                full = bytes(exp_new['data'])
                if not (full.startswith(data) or (op['op'] == 'seekwrite' and data == full[:len(data)])):
                    ctx.violation(sig + '/not-a-prefix', f'{label}: after ENOSPC the file holds {len(data)} bytes that are not a prefix of what was written', info)
                    return
            if op['op'] == 'truncate' and node is not None:
                if node[2] not in (bytes(old['data']), bytes(exp_new['data'])):
                    ctx.violation(sig + '/truncate-partial', f'{label}: growing truncate is not all-or-nothing after ENOSPC ({len(node[2])} bytes)', info)
                    return
            if op['op'] in ('mkdir', 'rename') and tree_diff(bt, seen) and tree_diff(at, seen):
                ctx.violation(sig + '/half-done', f'{label}: after ENOSPC the tree is neither the old nor the new one', info)
                return
        # allocation only inside the data area: covered by the structural check (chains in range)
        # free space, then the same operation must go through
        if got == 'ENOSPC':
            fatops.apply_impl(fs, dict(op='unlink', path='/filler.big'))
            if op['op'] == 'rename' and fs.root.joinpath(op['target'].lstrip('/')).exists():
                pass
            again = fatops.apply_impl(fs, op)
            vol = bytes(buf[GUARD:len(buf) - GUARD])
            probs = fatspec.spec_wf(R, vol)
            if again != 'ok' or probs:
                ctx.violation(sig + '/not-usable-after-freeing', f'{label}: after freeing space the operation gives {again}, structural problems {probs[:3]}', info)
                return
    finally:
        try:
            fs.close()
        except Exception:
            pass


def root_full_case(ctx, R, rng, FatFileSystem, ft, free_slots, how=0):
    """16-slot root directory with `free_slots` unused slots; creating a name that needs 4 slots"""
    g = fatimg.Geometry(ft, 40, spc=1, bps=512, nfats=2, root_entries=16, type_string=True)
    b = fatimg.Builder(g, rng)
    t = fatops.Tree()
    k = 0
    while len(b.dirs[id(b.tree)]['slots']) < 16 - free_slots:
        nm = f'R{k}.BIN'
        data = bytes([k]) * 10
        b.add(b.tree, nm, (nm.split('.')[0].encode().ljust(8), b'BIN'), data=data, lfn=False)
        t.root['children'][nm] = {'kind': 'file', 'name': nm, 'data': bytearray(data)}
        k += 1
    # 3 long-name records + 1, created in every way an entry can be created
    path = '/a name needing four slots in all.txt'
    op = [dict(op='write', path=path, data=b'payload', via='open'), dict(op='mkdir', path=path), dict(op='touch', path=path),
          dict(op='write', path=path, data=b'payload', via='bytes'), dict(op='append', path=path, data=b'payload')][how]
    buf = bytearray(b'\xA5' * GUARD) + b.img + bytearray(b'\x5A' * GUARD)
    info = dict(fat_type=ft, free_root_slots=free_slots, op=jsonable_op(op), case='root-full')
    with warnings.catch_warnings():
        warnings.simplefilter('ignore')
        fs = FatFileSystem(memoryview(buf)[GUARD:len(buf) - GUARD])
    try:
        after = copy.deepcopy(t)
        fatops.apply_model(after, op)
        got = fatops.apply_impl(fs, op)
        ctx.case((ft, 'root-full', free_slots, how), got == 'ENOSPC', f'root-full-{op["op"]}-{got}')
        vol = bytes(buf[GUARD:len(buf) - GUARD])
        # nobodd also writes an end-of-directory record after the new entries, so it needs one slot
        # more than the entries themselves; exactly 4 free slots may go either way
        want = 'ok' if free_slots >= 5 else 'ENOSPC'
        if got != want and free_slots != 4:
            ctx.violation('fs.enospc/root-full/outcome', f'creating a 4-slot name with {free_slots} free root slots on {ft} gave {got}, expected {want}', info)
            return
        probs = fatspec.spec_wf(R, vol)
        if probs:
            ctx.violation('fs.enospc/root-full/structural:' + str(probs[0][0]), f'root directory with {free_slots} free slots ({got}): {probs[:3]}', info)
            return
        geom, spec = fatspec.spec_abs(R, vol)
        d = tree_diff((after if got == 'ok' else t).canon(), canon_spec(spec))
        if d:
            ctx.violation('fs.enospc/root-full/tree', f'root directory with {free_slots} free slots ({got}): {d}', info)
            return
        if got == 'ENOSPC':
            # free slots, then it must work
            for j in range(5):
                fatops.apply_impl(fs, dict(op='unlink', path=f'/R{j}.BIN'))
                del t.root['children'][f'R{j}.BIN']
            again = fatops.apply_impl(fs, op)
            probs = fatspec.spec_wf(R, bytes(buf[GUARD:len(buf) - GUARD]))
            if again != 'ok' or probs:
                ctx.violation('fs.enospc/root-full/not-usable-after-freeing', f'after deleting five entries the creation gives {again}, problems {probs[:3]}', info)
    finally:
        try:
            fs.close()
        except Exception:
            pass


def same_object_recovery(ctx, R, rng, FatFileSystem):
    """'after space is freed the volume is fully usable again', the way an application does it: ONE path object creates the
    file, writes through the handle until ENOSPC, and is then used to unlink it; afterwards every cluster the failed write took
    must be free again, the structural check clean, and a file of the size that failed must now fit"""
    import errno
    for ft, fsinfo in (('fat12', False), ('fat16', False), ('fat32', True)):
        for where in ('', 'sub/'):
            for free in (1, 3):
                g, b, t = make(rng, ft, free, 0, fsinfo)
                buf = bytearray(b.img)
                with warnings.catch_warnings():
                    warnings.simplefilter('ignore')
                    fs = FatFileSystem(memoryview(buf))
                try:
                    free_before = sum(1 for c in range(2, g.n_clusters + 2) if fs.fat[c] == 0)
                    p = fs.root / (where + 'Too big for the volume.bin')
                    outcome = None
                    try:
                        with p.open('wb', buffering=0) as f:
                            f.write(b'\x5a' * ((free + 4) * g.cs))
                        outcome = 'written'
                    except OSError as e:
                        outcome = 'ENOSPC' if e.errno == errno.ENOSPC else repr(e)
                    info = dict(fat_type=ft, free_clusters=free, directory=where or '/', outcome=outcome)
                    ctx.case(('same-object', ft, where, free), True, 'same-object-recovery')
                    if outcome != 'ENOSPC':
                        ctx.violation('fs.enospc/wrong-outcome', f'writing {free + 4} clusters with {free} free: {outcome}', info)
                        return
                    try:
                        p.unlink()                      # the object that created the file
                    except Exception as e:              # noqa: BLE001
                        ctx.violation('fs.enospc/recovery', f'unlink through the creating path object after ENOSPC raised {e!r}', info)
                        return
                    free_after = sum(1 for c in range(2, g.n_clusters + 2) if fs.fat[c] == 0)
                    probs = fatspec.spec_wf(R, bytes(buf))
                    if probs or free_after != free_before:
                        ctx.violation('fs.enospc/recovery', f'{ft} {where or "/"}: a write of {free + 4} clusters into {free} free ones failed with ENOSPC and the file was unlinked '
                                      f'through the path object that created it: {free_after} clusters free afterwards (before: {free_before}), structural check {probs[:3]}', info)
                        return
                    try:
                        (fs.root / (where + 'fits now.bin')).write_bytes(b'k' * (free * g.cs))
                    except Exception as e:              # noqa: BLE001
                        ctx.violation('fs.enospc/recovery', f'after freeing the space a file of {free} clusters does not fit: {e!r}', info)
                        return
                finally:
                    try:
                        fs.close()
                    except Exception:
                        pass


def run(ctx, build):
    model_correspondence(ctx)
    from nobodd.fs import FatFileSystem
    R = ctx.runner('Fat')
    rng = ctx.rng
    same_object_recovery(ctx, R, rng, FatFileSystem)
    if ctx.violations:
        return
    combos = [('fat12', 0, False), ('fat16', 0, False), ('fat32', 0, True), ('fat32', 0, False),
              ('fat12', 300, False), ('fat16', 9, False), ('fat32', 200, True)]
    if not ctx.thorough and not ctx.widen:
        combos = [combos[0], combos[2], combos[4], combos[5], combos[6]] + ([combos[1]] if ctx.seed % 2 else [combos[3]])
    for ft, extra, fsinfo in combos:
        for label, mkop, scalable in CASES:
            ks = [3] if scalable else [0]
            for k in ks:
                need = (k + 2) if scalable else 3
                for free in range(0, need + 1):
                    run_case(ctx, R, rng, FatFileSystem, ft, free, extra, fsinfo, label, mkop, k,
                             subdir_full=SUBDIR_FILL.get(label, False))
        # fixed-size root directory running out of slots
        if ft != 'fat32':
            for free_slots in (0, 1, 2, 3, 4, 5):
                for how in range(5):
                    root_full_case(ctx, R, rng, FatFileSystem, ft, free_slots, how)
    ctx.sample(dict(case='append', fat_type='fat12', free_clusters=1, payload_clusters=3))


def model_correspondence(ctx):
    """differential runs of the extracted Coq models of this property's cores against the real classes"""
    lib.corr_modules(ctx, SPEC, ['fat_alloc_corr', 'fat_data_corr', 'fat_dir_corr', 'fat_vol_corr'])
    # the numeric tails of 8.3 aliases: five-digit tails, ENOSPC when all are taken (never a name already in use)
    import fat_names_corr
    fat_names_corr.many_tails(ctx)


def replay(ctx, obj):
    print(json.dumps(obj, indent=1)[:4000])
    return False
