"""C06 -- Serving is read-only: images are never modified and writes are refused."""
import json, os, struct, tempfile, warnings, hashlib, subprocess
from pathlib import Path
import lib, fatimg, fatspec
from tftpdrv import Sim
import realserver

SPEC = {
    'rule': 'disk images (MBR + FAT12/16/32 boot partition) including volumes whose dirty flag is set and volumes holding '
            'zero-length files that own a cluster; request histories (octet and netascii reads of every file, completed and '
            'abandoned at random blocks, write requests, malformed packets) through the real BootHandler in-process (image '
            'mapped exactly as the server maps it) and, in a fresh interpreter, through a real BootServer over loopback UDP; '
            'SHA-256 of every image file before and after must be equal, every WRQ must be answered by an ERROR packet, the '
            'reaper thread must stay alive. Non-trivial = history containing a read of a special-class file or an abandoned '
            'transfer; distinct = distinct (image, history).',
    'trusted_base': [
        'Coq 8.16.1 kernel; theorems closed under the global context',
        'translator gen_boot.py: DiskImage default access, the constructor calls in BootHandler.resolve_path, '
        'FatFileSystem default atime, TFTPClientState open mode; gen_fatskel.py mutation skeleton',
        'runtime residue: enforcement of mmap.ACCESS_READ by the OS',
    ],
    'theorems': {},
    'assumptions': [],
}


def make_image(rng, tmp, ft, dirty, zero_with_cluster, part_slot=1):
    g = fatimg.Geometry(ft, 80, spc=1, bps=512, nfats=2, root_entries=64, type_string=True)
    b = fatimg.Builder(g, rng)
    used = set()
    names = {}
    def add(name, data):
        b.add(b.tree, name, fatimg.alias_for(name, used), data=data)
        names[name] = data
    add('config.txt', b'arm_64bit=1\n' * 30)
    add('kernel.img', bytes(rng.getrandbits(8) for _ in range(5000)))
    add('text file.txt', b'line one\nline two\r\nthree\n' * 10)
    add('empty', b'')
    if zero_with_cluster:
        # an empty file that owns a cluster (what a crashed writer leaves behind)
        n = b.add(b.tree, 'zerolen.bin', fatimg.alias_for('zerolen.bin', used), data=b'x')
        slot = len(b.dirs[id(b.tree)]['slots']) - 1
        off = b._dir_slot_offset(b.tree, slot)
        struct.pack_into('<I', b.img, off + 28, 0)       # size := 0, cluster kept
        names['zerolen.bin'] = b''
    if dirty and ft != 'fat12':
        v = b.get(1)
        b.set(1, v & ~(0x8000 if ft == 'fat16' else 0x08000000))
    disk = fatimg.mbr_wrap(bytes(b.img), ptype=0x0c, slot=part_slot)
    path = os.path.join(tmp, f'{ft}-{int(dirty)}{int(zero_with_cluster)}-p{part_slot}.img')
    with open(path, 'wb') as f:
        f.write(disk)
    return path, names


REAL = r'''
import hashlib, warnings
warnings.simplefilter('ignore')
from pathlib import Path
from nobodd.server import BootServer
from nobodd.config import Board
images = %(images)r
parts = %(parts)r
boards = {0x100 + i: Board(0x100 + i, Path(p), parts[i], None) for i, p in enumerate(images)}
srv = BootServer(('127.0.0.1', 0), boards)
th = threading.Thread(target=srv.serve_forever, kwargs={'poll_interval': 0.01}, daemon=True)
th.start()
res = {'reads': [], 'wrq': [], 'reaper_alive_mid': None}
for i, p in enumerate(images):
    if not th.is_alive():
        res['server_thread_died'] = 'the serve_forever thread ended after the requests to image %%d' %% (i - 1)
        break
    for name, mode, steps in %(requests)r:
        c = Client(srv.server_address, 3.0)
        # a short server timeout only for the transfers this client abandons (they are cleaned up quickly); complete
        # transfers keep the default, so a client delayed by a loaded machine is not given up on
        c.rrq(('%%x/%%s' %% (0x100 + i, name)).encode(), mode, [(b'utimeout', b'20000')] if steps is not None else [])
        if steps is None:
            c.run()
        else:
            for _ in range(steps): c.step()
        res['reads'].append([i, name, mode.decode(), steps, c.finished, hashlib.sha1(c.buf).hexdigest(), (c.error or b'')[:40].hex()])
        c.close()
    c = Client(srv.server_address, 1.0)
    c.s.sendto(b'\0\2%%x/new.txt\0octet\0' %% (0x100 + i), srv.server_address)
    r = c.recv(); res['wrq'].append(r[0][:4].hex() if r else None); c.close()
    # write requests longer than a default-size DATA packet (a long path; a long unknown option after the mode)
    for big in (b'\0\2%%x/kernel.img\0octet\0tsize\x004096\0' %% (0x100 + i), b'\0\2%%x/config.txt\0octet\0blksize\x00512\0' %% (0x100 + i),
                b'\0\2%%x/' %% (0x100 + i) + b'n' * 650 + b'\0octet\0', b'\0\2%%x/new.txt\0octet\0' %% (0x100 + i) + b'x' * 560 + b'\0y\0',
                b'\0\2%%x/d/' %% (0x100 + i) + b'\xc3\xa9' * 400 + b'\0netascii\0'):
        c = Client(srv.server_address, 1.0)
        c.s.sendto(big, srv.server_address)
        r = c.recv(); res['wrq'].append(r[0][:4].hex() if r else None); c.close()
    c = Client(srv.server_address, 0.3); c.s.sendto(b'\0\3\0\1junk', srv.server_address); c.recv(); c.close()
time.sleep(0.5)
res['reaper_alive_mid'] = srv.subs.is_alive()
res['alive'] = len(srv.subs._alive)
if th.is_alive():
    srv.shutdown()
else:
    res.setdefault('server_thread_died', 'the serve_forever thread ended during the last requests')
srv.server_close()
# a table in which EVERY board is pinned to an address: a write request from any other host is still refused with ERROR
import ipaddress
pinned = {0x300 + i: Board(0x300 + i, Path(p), parts[i], ipaddress.ip_address('127.0.0.9')) for i, p in enumerate(images[:2])}
srv2 = BootServer(('127.0.0.1', 0), pinned)
th2 = threading.Thread(target=srv2.serve_forever, kwargs={'poll_interval': 0.01}, daemon=True)
th2.start()
res['wrq_pinned'] = []
for req in (b'\0\2300/new.txt\0octet\0', b'\0\2301/config.txt\0netascii\0', b'\0\2nosuch/x\0octet\0'):
    c = Client(srv2.server_address, 1.0)
    c.s.sendto(req, srv2.server_address)
    r = c.recv(); res['wrq_pinned'].append(r[0][:4].hex() if r else None); c.close()
srv2.shutdown(); srv2.server_close()
print(json.dumps(res))
'''


def run(ctx, build):
    for rnd in range(80 if ctx.thorough else 1):
        ctx.extra['rounds'] = rnd + 1
        if one_round(ctx, build, rnd) is False or ctx.violations:
            return


def one_round(ctx, build, rnd):
    from nobodd.server import BootHandler
    from nobodd.config import Board
    rng = ctx.rng
    combos = [(ft, d, z) for ft in ('fat12', 'fat16', 'fat32') for d in (False, True) for z in (False, True)]
    if not ctx.thorough and not ctx.widen:
        combos = [c for c in combos if c[1] or c[2]] + [('fat16', False, False)]
    with tempfile.TemporaryDirectory() as tmp:
        imgs = []
        slots = {}
        for ft, d, z in combos:
            slot = rng.choice([1, 2, 3])             # the boot partition is not always the first one
            path, names = make_image(rng, tmp, ft, d, z, slot)
            imgs.append((path, names, (ft, d, z)))
            slots[path] = slot
        before = {p: hashlib.sha256(open(p, 'rb').read()).hexdigest() for p, _, _ in imgs}
        # ---- in-process through the real BootHandler -----------------------------------------------
        boards = {0x200 + i: Board(0x200 + i, Path(p), slots[p], None) for i, (p, _, _) in enumerate(imgs)}
        images = {}
        try:
            for i, (p, names, cls) in enumerate(imgs):
                hist = []
                for rep in range(8 if ctx.thorough else 2):
                    for name, content in names.items():
                        mode = rng.choice([b'octet', b'octet', b'netascii'])
                        steps = rng.choice([None, None, 0, 1, 2])
                        sim = Sim({}, handler_cls=BootHandler, server_attrs=dict(boards=boards, images=images))
                        try:
                            with warnings.catch_warnings():
                                warnings.simplefilter('ignore')
                                sent, raised = sim.packet(0, 1, b'\0\1%x/%s\0' % (0x200 + i, name.encode()) + mode + b'\0blksize\x00512\0', 1000)
                                hist.append((name, mode.decode(), steps))
                                ctx.stat('request-' + mode.decode() + ('-abandoned' if steps is not None else ''))
                                if sent and sent[0][1][:2] == b'\0\6':
                                    tid, blk, n = sent[0][0], 0, 0
                                    while steps is None or n < steps:
                                        out = sim.packet(tid, 1, struct.pack('!HH', 4, blk), 2000 + n)[0]
                                        n += 1
                                        if not out or out[0][1][:2] != b'\0\3':
                                            break
                                        blk = out[0][1][2] * 256 + out[0][1][3]
                                        if len(out[0][1]) - 4 < 512:
                                            sim.packet(tid, 1, struct.pack('!HH', 4, blk), 3000)
                                            break
                                # the reaper closes the source of every finished / abandoned transfer
                                for s in list(sim.subs.values()):
                                    try:
                                        s.client_state.close()
                                    except Exception as e:
                                        ctx.violation('boot.serve/close-raises',
                                                      f'closing the source of {name!r} on a {cls} image raised {type(e).__name__}: {e} '
                                                      f'(in the server this kills the reaper thread)',
                                                      dict(image_class=cls, history=hist))
                                        return
                        finally:
                            sim.restore()
                    # write request and garbage
                    sim = Sim({}, handler_cls=BootHandler, server_attrs=dict(boards=boards, images=images))
                    try:
                        serial = b'%x' % (0x200 + i)
                        wrqs = [serial + b'/new.txt\0octet\0', serial + b'/kernel.img\0octet\0', serial + b'/config.txt\0netascii\0',
                                serial + 'caf\u00e9 \u65e5\u672c.txt'.encode('utf-8').join([b'/', b'\0octet\0']),
                                serial + b'/a name with spaces.bin\0OCTET\0blksize\x001024\0tsize\x0012\0',
                                # write requests WITH options (RFC 2347) for files that exist in the boot partition
                                serial + b'/kernel.img\0octet\0tsize\x004096\0', serial + b'/config.txt\0octet\0blksize\x00512\0timeout\x005\0',
                                serial + b'/kernel.img\0netascii\0unknownopt\0x\0', serial + b'/empty\0octet\0utimeout\x0050000\0',
                                'gr\u00fc\u00dfe/\U0001F600.bin'.encode('utf-8') + b'\0octet\0', b'nosuchboard/x\0octet\0',
                                serial + b'/' + b'n' * 300 + b'\0octet\0', b'/etc/passwd\0octet\0', serial + b'/../../x\0mail\0']
                        for k, w in enumerate(wrqs):
                            sent, _ = sim.packet(0, 1, b'\0\2' + w, 5000 + 10 * k)
                            ctx.stat('wrq')
                            if len(sent) != 1 or sent[0][1][:2] != b'\0\5':
                                ctx.violation('boot.serve/wrq-not-refused', f'write request {w!r} answered by {sent} instead of one ERROR packet', dict(image_class=cls, wrq=w.hex()))
                                return
                        sim.packet(0, 1, b'\0\4\0\1', 5001); sim.packet(0, 1, b'junk', 5002)
                    finally:
                        sim.restore()
                    # a write request handled WHILE a transfer thread handles another client's ACK (two handler objects alive
                    # at once, every interleaving of their setup / handle / finish phases): the writer gets its ERROR packet,
                    # the reader its DATA block -- never each other's reply
                    for order in ('shSHFf', 'sShHfF', 'sShHFf', 'SshHfF', 'SsHhFf', 'sSHhfF', 'shSHfF', 'SHshFf'):
                        sim = Sim({}, handler_cls=BootHandler, server_attrs=dict(boards=boards, images=images))
                        try:
                            sent, _ = sim.packet(0, 1, b'\0\1' + serial + b'/kernel.img\0octet\0', 6000)
                            if len(sent) != 1 or sent[0][1][:4] != b'\0\3\0\1':
                                break
                            tid = sent[0][0]
                            out = sim.overlapped((0, 2, b'\0\2' + serial + b'/new.txt\0octet\0'), (tid, 1, b'\0\4\0\1'), order, 6001)
                            ctx.stat('wrq-overlapping-a-transfer')
                            to_writer = [b for t, b, a in out if t == 0]
                            to_reader = [b for t, b, a in out if t == tid]
                            if len(to_writer) != 1 or to_writer[0][:2] != b'\0\5' or len(to_reader) != 1 or to_reader[0][:4] != b'\0\3\0\2':
                                ctx.violation('boot.serve/wrq-not-refused', f'a write request handled while a transfer thread handles an ACK (phases {order}, lower case = '
                                              f'the write request): the writer was sent {[x[:4].hex() + "..(%d bytes)" % len(x) for x in to_writer]} (expected one ERROR packet), the reader '
                                              f'{[x[:4].hex() + "..(%d bytes)" % len(x) for x in to_reader]} (expected DATA block 2)', dict(image_class=cls, order=order))
                                return
                        finally:
                            sim.restore()
                ctx.case((cls, tuple(hist)), cls[1] or cls[2] or any(h[2] is not None for h in hist), 'inproc-%s-dirty%d-zero%d' % cls)
        finally:
            for image, fs in images.values():
                try:
                    fs.close(); image.close()
                except Exception:
                    pass
        after = {p: hashlib.sha256(open(p, 'rb').read()).hexdigest() for p, _, _ in imgs}
        for (p, names, cls) in imgs:
            if before[p] != after[p]:
                ctx.violation('boot.serve/image-modified', f'image of class {cls} changed while being served (in-process)', dict(image_class=cls))
                return
        # ---- real BootServer, fresh interpreter, loopback UDP ------------------------------------------
        reqs = [('config.txt', b'octet', None), ('text file.txt', b'netascii', None), ('kernel.img', b'octet', 2),
                ('empty', b'octet', None), ('zerolen.bin', b'octet', None), ('zerolen.bin', b'netascii', None), ('kernel.img', b'octet', None)]
        res = realserver.run_script(REAL % dict(images=[p for p, _, _ in imgs], parts=[slots[p] for p, _, _ in imgs], requests=reqs), timeout=240)
        ctx.case(('real', rnd, tuple(c for _, _, c in imgs)), True, 'real-udp')
        if res.get('crash'):
            ctx.violation('boot.serve/real-server-crash', f'real BootServer scenario crashed: {res.get("stderr", "")[-400:]}', res)
            return
        after = {p: hashlib.sha256(open(p, 'rb').read()).hexdigest() for p, _, _ in imgs}
        for (p, names, cls) in imgs:
            if before[p] != after[p]:
                ctx.violation('boot.serve/image-modified-real', f'image of class {cls} changed while being served by a real server', dict(image_class=cls, result=res))
                return
        if not res.get('reaper_alive_mid') or res.get('alive'):
            ctx.violation('boot.serve/reaper-died', f'after serving, reaper alive={res.get("reaper_alive_mid")}, transfers still registered={res.get("alive")}',
                          dict(result=res, classes=[c for _, _, c in imgs]))
            return
        if res.get('server_thread_died'):
            ctx.violation('boot.serve/wrq-not-refused-real', f'{res["server_thread_died"]}; write requests so far were answered by {res["wrq"]} '
                          f'(None = no answer; the last ones are 600-800 bytes long)', dict(result=res))
            return
        if any(w is None or not w.startswith('0005') for w in res['wrq']):
            ctx.violation('boot.serve/wrq-not-refused-real', f'write requests answered by {res["wrq"]}', dict(result=res))
            return
        if any(w is None or not w.startswith('0005') for w in res.get('wrq_pinned', [])):
            ctx.violation('boot.serve/wrq-not-refused-real', f'a server whose boards are all pinned to an address answered write requests from '
                          f'another host by {res["wrq_pinned"]} (None = no answer) instead of ERROR packets', dict(result=res))
            return
        for i, name, mode, steps, finished, sha, err in res['reads']:
            names = imgs[i][1]
            if name in names and steps is None and mode == 'octet':
                if not finished or sha != hashlib.sha1(names[name]).hexdigest():
                    ctx.violation('boot.serve/read-wrong', f'real server: {name!r} from image class {imgs[i][2]} finished={finished} error={bytes.fromhex(err)!r}',
                                  dict(result=res))
                    return
        ctx.extra['real'] = {k: v for k, v in res.items() if k != 'reads'}
    ctx.sample(dict(image_class=['fat32', True, True], requests=['zerolen.bin octet', 'kernel.img abandoned after 2 blocks', 'WRQ']))


def replay(ctx, obj):
    print(json.dumps(obj, indent=1)[:3000])
    return False
