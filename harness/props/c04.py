"""C04 -- Any history of mutations leaves a consistent volume with expected content."""
import json, hashlib, warnings
import lib, fatimg, fatspec, fatops

SPEC = {
    'rule': 'seeded histories of create / overwrite / append / seek-and-write / truncate / unlink / mkdir / rmdir / rename / '
            'touch (payloads around cluster multiples, seeks before/at/after EOF, renames onto new / existing / identical / '
            'case-variant targets, files and directories) through the public path API on empty, populated and fragmented '
            'FAT12/16/32 volumes of random geometry embedded in a guarded buffer; after EVERY operation the tree read '
            'through the same instance, through a fresh instance and through the extracted Coq specification reader is '
            'compared with a plain in-memory model, the Coq structural check wf_check must report nothing, and bytes outside '
            'the partition must be unchanged. Non-trivial = history of >= 5 successful mutations; distinct = distinct history.',
    'trusted_base': [
        'Coq 8.16.1 kernel; theorems closed under the global context',
        'translator gen_fat.py; extraction + runner; harness/fatimg.py, harness/fatops.py (in-memory model)',
        'the Coq specification reader Fat/Spec.v + Fat/Check.v is the oracle (validated against an independent writer in C03)',
        'modelled not verified: memoryview slice confinement to the partition (CPython)',
    ],
    'theorems': {},
    'assumptions': ['operations are issued one at a time (quiescent points between them)'],
}


def canon_spec(n):
    if n['kind'] == 'file':
        return ('F', n['name'], n['data'])
    return ('D', n['name'], [canon_spec(k) for k in n['children']])


def canon_nobodd(t):
    if t[0] == 'F':
        return ('F', t[1], t[4])
    return ('D', t[1], [canon_nobodd(k) for k in t[2]])


def sort_tree(t):
    if t[0] == 'F':
        return t
    return ('D', t[1], sorted((sort_tree(k) for k in t[2]), key=lambda k: k[1].upper()))


def tree_diff(a, b, path=''):
    a, b = sort_tree(a), sort_tree(b)
    if a[0] != b[0] or a[1] != b[1]:
        return f'{path}: {a[:2]} vs {b[:2]}'
    if a[0] == 'F':
        if a[2] != b[2]:
            i = next((i for i, (x, y) in enumerate(zip(a[2], b[2])) if x != y), min(len(a[2]), len(b[2])))
            return f'{path}/{a[1]}: content differs (lengths {len(a[2])} vs {len(b[2])}, first difference at byte {i})'
        return None
    if [k[1] for k in a[2]] != [k[1] for k in b[2]]:
        return f'{path}/{a[1]}: entries {[k[1] for k in a[2]]} vs {[k[1] for k in b[2]]}'
    for x, y in zip(a[2], b[2]):
        d = tree_diff(x, y, path + '/' + a[1])
        if d:
            return d
    return None


GUARD = 1536


def new_volume(rng, thorough, populated=False, fat_types=('fat12', 'fat16', 'fat32')):
    ft = rng.choice(fat_types)
    bps = rng.choice([512, 512, 1024])
    spc = rng.choice([1, 1, 2])
    g = fatimg.Geometry(ft, rng.randint(60, 140), spc=spc, bps=bps, nfats=rng.choice([1, 2, 2]),
                        root_entries=rng.choice([32, 64]) * (bps // 512), extra_fat_entries=rng.choice([0, 0, 9]),
                        fsinfo=rng.random() < 0.75, type_string=True)
    b = fatimg.Builder(g, rng, fragment=populated and rng.random() < 0.6)
    t = fatops.Tree()
    if populated:
        used = set()
        parents = [(b.tree, t.root)]
        for _ in range(rng.randint(2, 8)):
            bp, tp = rng.choice(parents)
            name = rng.choice(fatops.NAMES)
            if name.upper() in tp['children'] or '~' in name:
                continue
            alias = fatimg.alias_for(name, used)
            if rng.random() < 0.25 and len(parents) < 3:
                n = b.add(bp, name, alias, is_dir=True)
                tn = {'kind': 'dir', 'name': name, 'children': {}}
                parents.append((n, tn))
            else:
                data = bytes(rng.getrandbits(8) for _ in range(rng.choice([0, 1, g.cs, g.cs + 1, 3 * g.cs])))
                b.add(bp, name, alias, data=data)
                tn = {'kind': 'file', 'name': name, 'data': bytearray(data)}
            tp['children'][name.upper()] = tn
    buf = bytearray(b'\xA5' * GUARD) + b.img + bytearray(b'\x5A' * GUARD)
    return g, buf, t


def check_state(ctx, R, fs, buf, g, t, history, sig, FatFileSystem, every_instance=True):
    """all observations after one operation; returns False after reporting a violation"""
    vol = bytes(buf[GUARD:len(buf) - GUARD])
    info = dict(geometry={k: v for k, v in vars(g).items()}, history=history)
    exp = t.canon()
    if bytes(buf[:GUARD]) != b'\xA5' * GUARD or bytes(buf[-GUARD:]) != b'\x5A' * GUARD:
        ctx.violation(sig + '/outside-partition', 'bytes outside the partition changed', info)
        return False
    probs = fatspec.spec_wf(R, vol)
    if probs:
        ctx.violation(sig + '/structural:' + str(probs[0][0]), f'structural check fails after {history[-1]}: {probs[:4]}', info)
        return False
    geom, spec = fatspec.spec_abs(R, vol)
    d = tree_diff(exp, canon_spec(spec)) if spec else 'unreadable'
    if d:
        ctx.violation(sig + '/spec-reader-differs', f'independent reader sees a different tree after {history[-1]}: {d}', info)
        return False
    with warnings.catch_warnings():
        warnings.simplefilter('ignore')
        try:
            d = tree_diff(exp, canon_nobodd(fatspec.dump_nobodd(fs)))
        except Exception as e:
            d = f'{type(e).__name__}: {e}'
        if d:
            ctx.violation(sig + '/same-instance-differs', f'same instance sees a different tree after {history[-1]}: {d}', info)
            return False
        if every_instance:
            try:
                fs2 = FatFileSystem(memoryview(buf)[GUARD:len(buf) - GUARD])
                try:
                    d = tree_diff(exp, canon_nobodd(fatspec.dump_nobodd(fs2)))
                finally:
                    fs2.close()
            except Exception as e:
                d = f'{type(e).__name__}: {e}'
            if d:
                ctx.violation(sig + '/fresh-instance-differs', f'fresh instance sees a different tree after {history[-1]}: {d}', info)
                return False
    return True


def jsonable_op(op):
    return {k: (v if not isinstance(v, (bytes, bytearray)) else {'len': len(v), 'sha1': hashlib.sha1(v).hexdigest()[:10], 'head': bytes(v[:8]).hex()})
            for k, v in op.items()}


def run_history(ctx, R, rng, nops, populated, FatFileSystem, sig='fs.history', fat_types=('fat12', 'fat16', 'fat32')):
    g, buf, t = new_volume(rng, ctx.thorough, populated, fat_types)
    history = []
    ok_mut = 0
    with warnings.catch_warnings():
        warnings.simplefilter('ignore')
        fs = FatFileSystem(memoryview(buf)[GUARD:len(buf) - GUARD])
    try:
        if not check_state(ctx, R, fs, buf, g, t, ['(initial volume)'], sig, FatFileSystem):
            return
        for i in range(nops):
            op = fatops.gen_op(rng, t, g.cs)
            # stay clear of ENOSPC here (C10 covers it): skip operations that would not fit with margin
            need = len(op.get('data', b'')) // g.cs + 4 + (op.get('pos', 0) + op.get('size', 0)) // g.cs
            if t.used_clusters(g.cs) + need > g.n_clusters - 6:
                continue
            jop = jsonable_op(op)
            history.append(jop)
            want = fatops.apply_model(t, op)
            got = fatops.apply_impl(fs, op)
            ctx.stat('op-' + op['op'] + ('-ok' if want == 'ok' else '-err'))
            if (want == 'ok') != (got == 'ok'):
                ctx.violation(f'{sig}/outcome:{op["op"]}', f'{jop} should {"succeed" if want == "ok" else "fail with " + want} but '
                              f'{"succeeded" if got == "ok" else "raised " + got}',
                              dict(geometry={k: v for k, v in vars(g).items()}, history=history))
                return
            if want == 'ok':
                ok_mut += 1
            if not check_state(ctx, R, fs, buf, g, t, history, sig, FatFileSystem, every_instance=(i % 3 == 0 or i == nops - 1)):
                return
    finally:
        try:
            fs.close()
        except Exception:
            pass
        ctx.case(json.dumps(history, sort_keys=True), ok_mut >= 5, g.fat_type + ('-populated' if populated else '-empty'))
    if len(ctx.samples) < 2:
        ctx.sample(dict(fat_type=g.fat_type, cs=g.cs, history=history[:6]))


def run(ctx, build):
    model_correspondence(ctx)
    from nobodd.fs import FatFileSystem
    R = ctx.runner('Fat')
    rng = ctx.rng
    n = 60 if ctx.thorough else 16
    if ctx.widen:
        n *= 2
    for i in range(n):
        run_history(ctx, R, rng, 60 if ctx.thorough else 40, populated=(i % 2 == 1), FatFileSystem=FatFileSystem)


def model_correspondence(ctx):
    """differential runs of the extracted Coq models of this property's cores against the real classes"""
    import fat_table_corr
    lib.corr_run(ctx, fat_table_corr)
    SPEC['theorems'].update(getattr(fat_table_corr, 'SPEC_THEOREMS', {}))
    SPEC['trusted_base'].extend(x for x in getattr(fat_table_corr, 'TRUSTED', []) if x not in SPEC['trusted_base'])
    import fat_alloc_corr
    lib.corr_run(ctx, fat_alloc_corr)
    SPEC['theorems'].update(getattr(fat_alloc_corr, 'SPEC_THEOREMS', {}))
    SPEC['trusted_base'].extend(x for x in getattr(fat_alloc_corr, 'TRUSTED', []) if x not in SPEC['trusted_base'])


def replay(ctx, obj):
    print(json.dumps(obj, indent=1)[:5000])
    return False
