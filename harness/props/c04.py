"""C04 -- Any history of mutations leaves a consistent volume with expected content."""
import json, hashlib, warnings
import lib, fatimg, fatspec, fatops

SPEC = {
    'rule': 'seeded histories of create / overwrite / append / seek-and-write / truncate / unlink / mkdir / rmdir / rename / '
            'touch (payloads around cluster multiples, seeks before/at/after EOF, renames onto new / existing / identical / '
            'case-variant targets, files and directories) through the public path API on empty, populated and fragmented '
            'FAT12/16/32 volumes of random geometry embedded in a guarded buffer; after EVERY operation the tree read '
            'through the same instance, through a fresh instance and through the extracted Coq specification reader is '
            'compared with a plain in-memory model, the Coq structural check wf_check must report nothing, and bytes outside '
            'the partition must be unchanged. Non-trivial = history of >= 5 successful mutations; distinct = distinct history.',
    'trusted_base': [
        'Coq 8.16.1 kernel; theorems closed under the global context',
        'translator gen_fat.py; extraction + runner; harness/fatimg.py, harness/fatops.py (in-memory model)',
        'the Coq specification reader Fat/Spec.v + Fat/Check.v is the oracle (validated against an independent writer in C03)',
        'modelled not verified: memoryview slice confinement to the partition (CPython)',
    ],
    'theorems': {},
    'assumptions': ['operations are issued one at a time (quiescent points between them)'],
}


def canon_spec(n):
    if n['kind'] == 'file':
        return ('F', n['name'], n['data'])
    return ('D', n['name'], [canon_spec(k) for k in n['children']])


def canon_nobodd(t):
    if t[0] == 'F':
        return ('F', t[1], t[4])
    return ('D', t[1], [canon_nobodd(k) for k in t[2]])


def sort_tree(t):
    if t[0] == 'F':
        return t
    return ('D', t[1], sorted((sort_tree(k) for k in t[2]), key=lambda k: k[1].upper()))


def tree_diff(a, b, path=''):
    a, b = sort_tree(a), sort_tree(b)
    if a[0] != b[0] or a[1] != b[1]:
        return f'{path}: {a[:2]} vs {b[:2]}'
    if a[0] == 'F':
        if a[2] != b[2]:
            i = next((i for i, (x, y) in enumerate(zip(a[2], b[2])) if x != y), min(len(a[2]), len(b[2])))
            return f'{path}/{a[1]}: content differs (lengths {len(a[2])} vs {len(b[2])}, first difference at byte {i})'
        return None
    if [k[1] for k in a[2]] != [k[1] for k in b[2]]:
        return f'{path}/{a[1]}: entries {[k[1] for k in a[2]]} vs {[k[1] for k in b[2]]}'
    for x, y in zip(a[2], b[2]):
        d = tree_diff(x, y, path + '/' + a[1])
        if d:
            return d
    return None


GUARD = 1536


def new_volume(rng, thorough, populated=False, fat_types=('fat12', 'fat16', 'fat32')):
    ft = rng.choice(fat_types)
    bps = rng.choice([512, 512, 1024])
    spc = rng.choice([1, 1, 2])
    g = fatimg.Geometry(ft, rng.randint(60, 140), spc=spc, bps=bps, nfats=rng.choice([1, 2, 2]),
                        root_entries=rng.choice([32, 64]) * (bps // 512), extra_fat_entries=rng.choice([0, 0, 9]),
                        fsinfo=rng.random() < 0.75, type_string=True)
    b = fatimg.Builder(g, rng, fragment=populated and rng.random() < 0.6)
    t = fatops.Tree()
    if populated:
        used = set()
        parents = [(b.tree, t.root)]
        for _ in range(rng.randint(2, 8)):
            bp, tp = rng.choice(parents)
            name = rng.choice(fatops.NAMES)
            if name.upper() in tp['children'] or '~' in name:
                continue
            alias = fatimg.alias_for(name, used)
            if rng.random() < 0.25 and len(parents) < 3:
                n = b.add(bp, name, alias, is_dir=True)
                tn = {'kind': 'dir', 'name': name, 'children': {}}
                parents.append((n, tn))
            else:
                data = bytes(rng.getrandbits(8) for _ in range(rng.choice([0, 1, g.cs, g.cs + 1, 3 * g.cs])))
                b.add(bp, name, alias, data=data)
                tn = {'kind': 'file', 'name': name, 'data': bytearray(data)}
            tp['children'][name.upper()] = tn
    buf = bytearray(b'\xA5' * GUARD) + b.img + bytearray(b'\x5A' * GUARD)
    return g, buf, t


def check_state(ctx, R, fs, buf, g, t, history, sig, FatFileSystem, every_instance=True):
    """all observations after one operation; returns False after reporting a violation"""
    vol = bytes(buf[GUARD:len(buf) - GUARD])
    info = dict(geometry={k: v for k, v in vars(g).items()}, history=history)
    exp = t.canon()
    if bytes(buf[:GUARD]) != b'\xA5' * GUARD or bytes(buf[-GUARD:]) != b'\x5A' * GUARD:
        ctx.violation(sig + '/outside-partition', 'bytes outside the partition changed', info)
        return False
    probs = fatspec.spec_wf(R, vol)
    if probs:
        ctx.violation(sig + '/structural:' + str(probs[0][0]), f'structural check fails after {history[-1]}: {probs[:4]}', info)
        return False
    geom, spec = fatspec.spec_abs(R, vol)
    d = tree_diff(exp, canon_spec(spec)) if spec else 'unreadable'
    if d:
        ctx.violation(sig + '/spec-reader-differs', f'independent reader sees a different tree after {history[-1]}: {d}', info)
        return False
    with warnings.catch_warnings():
        warnings.simplefilter('ignore')
        try:
            d = tree_diff(exp, canon_nobodd(fatspec.dump_nobodd(fs)))
        except Exception as e:
            d = f'{type(e).__name__}: {e}'
        if d:
            ctx.violation(sig + '/same-instance-differs', f'same instance sees a different tree after {history[-1]}: {d}', info)
            return False
        if every_instance:
            try:
                fs2 = FatFileSystem(memoryview(buf)[GUARD:len(buf) - GUARD])
                try:
                    d = tree_diff(exp, canon_nobodd(fatspec.dump_nobodd(fs2)))
                finally:
                    fs2.close()
            except Exception as e:
                d = f'{type(e).__name__}: {e}'
            if d:
                ctx.violation(sig + '/fresh-instance-differs', f'fresh instance sees a different tree after {history[-1]}: {d}', info)
                return False
    return True


def jsonable_op(op):
    def j(v):
        if isinstance(v, (bytes, bytearray)):
            return {'len': len(v), 'sha1': hashlib.sha1(v).hexdigest()[:10], 'head': bytes(v[:8]).hex()}
        if isinstance(v, (list, tuple)):
            return [j(x) for x in v]
        return v
    return {k: j(v) for k, v in op.items() if not k.startswith('_')}


def respell_with_dots(rng, t, path):
    """another spelling of `path` with '.' / 'dir/..' detours BELOW the root, every detour through an existing directory:
    by the normalisation laws (resolved_is_normalised_path, C19_resolve_*) it denotes the same place"""
    comps = [c for c in path.split('/') if c]
    if len(comps) < 2:
        return path
    out, node = [], t.root
    for i, c in enumerate(comps):
        if i >= 1 and node is not None and node != 'notdir' and node.get('kind') == 'dir' and rng.random() < 0.6:
            subs = [k['name'] for k in node['children'].values() if k['kind'] == 'dir']
            r = rng.random()
            if r < 0.4:
                out.append('.')
            elif subs:
                out += [rng.choice(subs), '..'] + (['.'] if r > 0.9 else [])
        out.append(c)
        node = node['children'].get(c.upper()) if node not in (None, 'notdir') and node.get('kind') == 'dir' else None
    return '/' + '/'.join(out)


def run_history(ctx, R, rng, nops, populated, FatFileSystem, sig='fs.history', fat_types=('fat12', 'fat16', 'fat32')):
    g, buf, t = new_volume(rng, ctx.thorough, populated, fat_types)
    history = []
    ok_mut = 0
    with warnings.catch_warnings():
        warnings.simplefilter('ignore')
        fs = FatFileSystem(memoryview(buf)[GUARD:len(buf) - GUARD])
    try:
        if not check_state(ctx, R, fs, buf, g, t, ['(initial volume)'], sig, FatFileSystem):
            return
        for i in range(nops):
            op = fatops.gen_op(rng, t, g.cs, sessions=True)
            # stay clear of ENOSPC here (C10 covers it): skip operations that would not fit with margin
            need = len(op.get('data', b'')) // g.cs + 4 + (op.get('pos', 0) + op.get('size', 0)) // g.cs
            if t.used_clusters(g.cs) + need > g.n_clusters - 6:
                continue
            plain = op
            if op['op'] != 'session' and rng.random() < 0.25:
                # the same operation through a dotted spelling of its path(s): same outcome, same tree
                op = dict(op, path=respell_with_dots(rng, t, op['path']))
                if 'target' in op:
                    op['target'] = respell_with_dots(rng, t, op['target'])
                if op != plain:
                    ctx.stat('op-through-a-dotted-path')
            jop = jsonable_op(op)
            history.append(jop)
            want = fatops.apply_model(t, plain)
            got = fatops.apply_impl(fs, op)
            ctx.stat('op-' + op['op'] + ('-ok' if want == 'ok' else '-err'))
            if (want == 'ok') != (got == 'ok'):
                ctx.violation(f'{sig}/outcome:{op["op"]}', f'{jop} should {"succeed" if want == "ok" else "fail with " + want} but '
                              f'{"succeeded" if got == "ok" else "raised " + got}',
                              dict(geometry={k: v for k, v in vars(g).items()}, history=history))
                return
            if want == 'ok':
                ok_mut += 1
            if not check_state(ctx, R, fs, buf, g, t, history, sig, FatFileSystem, every_instance=(i % 3 == 0 or i == nops - 1)):
                return
    finally:
        try:
            fs.close()
        except Exception:
            pass
        ctx.case(json.dumps(history, sort_keys=True), ok_mut >= 5, g.fat_type + ('-populated' if populated else '-empty'))
    if len(ctx.samples) < 2:
        ctx.sample(dict(fat_type=g.fat_type, cs=g.cs, history=history[:6]))


def scripts(cs):
    """deterministic corner-case histories (each needs something specific that random histories reach only rarely)"""
    def blob(n, seed):
        return bytes((seed * 37 + i * 11) % 251 + 1 for i in range(n))      # never a zero byte: stale data is visible in holes
    W = lambda path, data, via='bytes': dict(op='write', path=path, data=data, via=via)
    S = lambda path, mode, steps, buffering=-1: dict(op='session', path=path, mode=mode, buffering=buffering, steps=steps, pos=0,
                                                     size=8 * cs)
    yield 'same-name-empty-files-across-directories', [
        dict(op='mkdir', path='/dir1'), dict(op='touch', path='/dir1/x'), dict(op='touch', path='/x'),
        dict(op='rename', path='/dir1/x', target='/x'), dict(op='rmdir', path='/dir1'),
        dict(op='mkdir', path='/dir1'), W('/dir1/same.bin', blob(cs + 1, 1)), W('/same.bin', blob(5, 2)),
        dict(op='rename', path='/same.bin', target='/dir1/same.bin'), dict(op='rename', path='/dir1/same.bin', target='/dir1/SAME.BIN')]
    yield 'hole-after-truncate-to-zero-on-one-handle', [
        W('/a', blob(3 * cs + 7, 3)), S('/a', 'wb', [('seek', cs + 5), ('write', b'z')]),
        W('/b', blob(2 * cs, 4)), S('/b', 'r+b', [('truncate', 0), ('seek', 2 * cs + 1), ('write', b'y'), ('seek', 0), ('read', 3 * cs)]),
        W('/c', blob(cs - 1, 5)), S('/c', 'r+b', [('truncate', 0), ('truncate', 3 * cs), ('seek', 0), ('read', 4 * cs)], 0),
        W('/d', blob(2 * cs + 3, 6)), S('/d', 'w+b', [('truncate', cs + 9), ('seek', 0), ('read', 2 * cs)], 0),
        S('/e', 'xb', [('seek', 3 * cs), ('write', b'tail')]), S('/e', 'a+b', [('write', b'more'), ('seek', 0), ('read', 4 * cs)])]
    yield 'many-names-sharing-six-alias-characters', (
        [W(f'/Collide name {k:02d}.txt', blob(7 + k, k)) for k in range(1, 14)]
        + [W('/Collide name 11.txt', blob(cs + 3, 77)), dict(op='unlink', path='/COLLIDE NAME 03.TXT'),
           W('/Collide name 14.txt', blob(9, 14)), dict(op='rename', path='/Collide name 12.txt', target='/Collide name 03.txt')])
    yield 'directory-growth-and-slot-reuse', (
        [dict(op='mkdir', path='/sub')] + [W(f'/sub/a rather long file name number {k}.dat', blob(k, k)) for k in range(1, 26)]
        + [dict(op='unlink', path=f'/sub/a rather long file name number {k}.dat') for k in range(2, 26, 2)]
        + [W(f'/sub/second wave of long names {k}.bin', blob(3, k)) for k in range(1, 20)]
        + [dict(op='mkdir', path='/sub/inner'), dict(op='rename', path='/sub/inner', target='/moved'),
           dict(op='rename', path='/sub/second wave of long names 5.bin', target='/moved/five')])
    yield 'directory-into-its-own-subtree', [
        dict(op='mkdir', path='/a.dir'), dict(op='mkdir', path='/a.dir/in'), W('/a.dir/in/f', blob(cs + 2, 10)),
        dict(op='rename', path='/a.dir', target='/a.dir/in/x'), dict(op='rename', path='/a.dir', target='/A.DIR/in/x'),
        dict(op='rename', path='/a.dir', target='/A.DIR/IN'), dict(op='rename', path='/A.DIR', target='/a.dir/new'),
        dict(op='rename', path='/a.dir/in', target='/A.DIR/IN/deeper'), dict(op='rename', path='/a.dir', target='/b.dir'),
        dict(op='rename', path='/b.dir/in', target='/in'),
        # the same through a name that is equal only after upper-casing, and through the 8.3 alias
        dict(op='mkdir', path='/straße'), dict(op='mkdir', path='/straße/sub'), W('/straße/sub/f', blob(9, 11)),
        dict(op='rename', path='/straße', target='/STRASSE/inner'), dict(op='rename', path='/straße', target='/STRASSE/SUB/inner'),
        dict(op='mkdir', path='/a long directory name'), W('/a long directory name/g', blob(cs, 12)),
        dict(op='rename', path='/a long directory name', target='/ALONGD~1/inner', _expect='EINVAL'),
        dict(op='rename', path='/a long directory name', target='/elsewhere')]
    # '.' / '..' components: in the middle of a path they are looked up as the directory's dot entries, so the operation is
    # the one on the normalised path (`_as`); at the root they do not exist; as the FINAL component of a creating,
    # removing or moving call they are refused and nothing changes
    M = lambda op, norm: dict(op, _as=dict(op, **norm))
    yield 'dot-components', [
        dict(op='mkdir', path='/a'), dict(op='mkdir', path='/a/b'), W('/top.txt', blob(cs + 1, 21)), W('/a/mid.txt', blob(7, 22)),
        M(W('/a/b/../n.txt', blob(cs + 3, 23)), dict(path='/a/n.txt')), M(dict(op='mkdir', path='/a/./c'), dict(path='/a/c')),
        M(dict(op='rename', path='/a/b/../n.txt', target='/a/b/./m.txt'), dict(path='/a/n.txt', target='/a/b/m.txt')),
        M(dict(op='mkdir', path='/a/c/../../d'), dict(path='/d')), M(dict(op='rename', path='/a/c', target='/d/../a/b/../../e'), dict(path='/a/c', target='/e')),
        M(dict(op='unlink', path='/a/./mid.txt'), dict(path='/a/mid.txt')), M(dict(op='touch', path='/e/../a/b/../t'), dict(path='/a/t')),
        dict(op='touch', path='/../x', _expect='FileNotFoundError'), dict(op='touch', path='/./x', _expect='FileNotFoundError'),
        dict(op='mkdir', path='/a/../../y', _expect='FileNotFoundError'), dict(op='unlink', path='/../top.txt', _expect='FileNotFoundError'),
        dict(op='touch', path='/..', _expect='ValueError'), dict(op='touch', path='/.', _expect='ValueError'),
        dict(op='write', path='/..', data=b'x', via='bytes', _expect='ValueError'), dict(op='mkdir', path='/..', _expect='ValueError'),
        dict(op='rename', path='/top.txt', target='/..', _expect='ValueError'), dict(op='rename', path='/d', target='/.', _expect='ValueError'),
        dict(op='rmdir', path='/a/b/.', _expect='ValueError'), dict(op='rename', path='/a/b/..', target='/zz', _expect='ValueError'),
        dict(op='rename', path='/a/b/.', target='/zz', _expect='ValueError'), dict(op='rmdir', path='/e/.', _expect='ValueError'),
        dict(op='rmdir', path='/a/b/..', _expect=('ENOTEMPTY', 'ValueError')), dict(op='mkdir', path='/a/..', _expect='FileExistsError'),
        dict(op='unlink', path='/a/..', _expect='IsADirectoryError'), dict(op='touch', path='/top.txt/..', _expect='NotADirectoryError'),
        dict(op='rename', path='/e', target='/a/b/..', _expect='IsADirectoryError'),
        M(dict(op='rmdir', path='/a/b/../../e'), dict(path='/e')), M(dict(op='rename', path='/a/./b', target='/a/../b2'), dict(path='/a/b', target='/b2')),
        M(W('/b2/../b2/./deep.bin', blob(2 * cs, 24)), dict(path='/b2/deep.bin')), M(dict(op='rmdir', path='/d/../d'), dict(path='/d')),
        # '..' deeper than one level: the directory that HOLDS the entry is found by eliminating '..' lexically
        dict(op='mkdir', path='/x'), W('/x/keep.bin', blob(cs + 9, 25)), dict(op='mkdir', path='/a/x'), dict(op='mkdir', path='/a/q'),
        M(dict(op='rmdir', path='/a/q/../x'), dict(path='/a/x')),
        dict(op='mkdir', path='/a/c2'), W('/a/c2/inside.bin', blob(5, 26)), dict(op='mkdir', path='/c2'),
        M(dict(op='rename', path='/a/q/../c2', target='/a/q/moved'), dict(path='/a/c2', target='/a/q/moved')),
        dict(op='rename', path='/a', target='/a/q/../q/inner', _expect='EINVAL'),
        M(dict(op='rename', path='/a/q/moved', target='/a/q/../back'), dict(path='/a/q/moved', target='/a/back')),
        M(dict(op='rmdir', path='/a/q/../q'), dict(path='/a/q'))]
    # a directory that spanned several clusters is emptied and removed; a NEW directory then starts on the same first cluster
    # while a file takes over the other clusters; when the new directory grows past its first cluster nothing of the old
    # one may be remembered (its former clusters now belong to the file)
    per = cs // 32
    n_old, n_new = (2 * per) // 4 + 2, per // 4 + 3
    old_names = [f'/old/a rather long file name number {k:02d}.dat' for k in range(n_old)]
    yield 'first-cluster-reused-after-rmdir', (
        [dict(op='mkdir', path='/old')] + [W(p, blob(3, k)) for k, p in enumerate(old_names)]
        + [dict(op='unlink', path=p) for p in old_names] + [dict(op='rmdir', path='/old'), dict(op='mkdir', path='/new'),
                                                          W('/keep.bin', blob(3 * cs + 5, 31))]
        + [W(f'/new/another long file name number {k:02d}.bin', blob(k + 1, 40 + k)) for k in range(n_new)]
        + [dict(op='mkdir', path='/old'), W('/old/again.txt', blob(cs + 1, 33)), dict(op='rmdir', path='/new', _expect='ENOTEMPTY'),
           dict(op='unlink', path='/keep.bin'), W('/new/last.bin', blob(2 * cs, 34))])
    # a long name equal, once upper-cased, to the 8.3 alias the next file would get (look-ups compare the UPPER-CASED long name)
    yield 'alias-candidate-equals-an-upper-cased-long-name', [
        W('/groß~1', blob(cs + 7, 41)), W('/Gross', blob(2 * cs + 1, 42)), dict(op='append', path='/Gross', data=blob(5, 43)),
        W('/straß~2', blob(cs + 88, 44)), W('/strassenbahn', blob(2 * cs + 1, 45)), dict(op='touch', path='/strassenbahn'), W('/straß~2', blob(3, 46)),
        dict(op='unlink', path='/Gross'), dict(op='append', path='/groß~1', data=blob(cs, 47))]
    yield 'growth-from-empty-and-far-seeks', [
        dict(op='touch', path='/t'), dict(op='truncate', path='/t', size=2 * cs + 1, buffering=0),
        dict(op='touch', path='/u'), dict(op='append', path='/u', data=blob(cs, 8)),
        dict(op='touch', path='/v'), dict(op='seekwrite', path='/v', pos=4 * cs + 2, data=b'far', buffering=0),
        dict(op='truncate', path='/v', size=cs, buffering=-1), dict(op='truncate', path='/v', size=0, buffering=0),
        dict(op='append', path='/v', data=blob(2 * cs, 9)), dict(op='truncate', path='/t', size=1, buffering=0)]


def run_scripts(ctx, R, FatFileSystem):
    for ft in ('fat12', 'fat16', 'fat32'):
        for cs_bps, spc in ((512, 1), (512, 2)):
            if not (ctx.thorough or ctx.widen) and spc != (2 if ft == 'fat16' else 1):
                continue            # quick tier: one cluster size per FAT type
            g = fatimg.Geometry(ft, 160, spc=spc, bps=cs_bps, nfats=2, root_entries=128, fsinfo=True, type_string=True)
            for label, ops in scripts(g.cs):
                b = fatimg.Builder(g, ctx.rng)
                # fill the free clusters with stale non-zero bytes: a hole must still read as zeros
                img = bytearray(b.img)
                data_off = len(img) - g.n_clusters * g.cs
                for i in range(data_off + 2 * g.cs, len(img)):
                    img[i] = 0xEE
                buf = bytearray(b'\xA5' * GUARD) + img + bytearray(b'\x5A' * GUARD)
                t = fatops.Tree()
                history = []
                sig = 'fs.script:' + label
                with warnings.catch_warnings():
                    warnings.simplefilter('ignore')
                    fs = FatFileSystem(memoryview(buf)[GUARD:len(buf) - GUARD])
                try:
                    if not check_state(ctx, R, fs, buf, g, t, ['(initial volume)'], sig, FatFileSystem):
                        break
                    good = True
                    for op in ops:
                        jop = jsonable_op(op)
                        history.append(jop)
                        # `_expect`: an outcome the plain model cannot derive (it does not know 8.3 aliases); the tree must not change
                        want = op['_expect'] if '_expect' in op else fatops.apply_model(t, op.get('_as', op))
                        got = fatops.apply_impl(fs, op)
                        ctx.stat('script-op-' + op['op'])
                        if (got not in want) if isinstance(want, tuple) else (want != got):
                            ctx.violation(f'{sig}/outcome:{op["op"]}', f'{label} on {ft} (cluster size {g.cs}): {jop} should give {want} but gave {got}',
                                          dict(geometry={k: v for k, v in vars(g).items()}, history=history))
                            good = False
                            break
                        if not check_state(ctx, R, fs, buf, g, t, history, sig, FatFileSystem):
                            good = False
                            break
                finally:
                    try:
                        fs.close()
                    except Exception:
                        pass
                    ctx.case((ft, g.cs, label), True, 'script-' + label)


def run(ctx, build):
    model_correspondence(ctx)
    from nobodd.fs import FatFileSystem
    R = ctx.runner('Fat')
    rng = ctx.rng
    run_scripts(ctx, R, FatFileSystem)
    n = 60 if ctx.thorough else 16
    if ctx.widen:
        n *= 2
    for i in range(n):
        run_history(ctx, R, rng, 60 if ctx.thorough else 40, populated=(i % 2 == 1), FatFileSystem=FatFileSystem)


def model_correspondence(ctx):
    """differential runs of the extracted Coq models of this property's cores against the real classes"""
    lib.corr_modules(ctx, SPEC, ['fat_table_corr', 'fat_alloc_corr', 'fat_data_corr', 'fat_names_corr', 'fat_dir_corr', 'fat_vol_corr'])


def replay(ctx, obj):
    print(json.dumps(obj, indent=1)[:5000])
    return False
