"""C11 -- Names round-trip exactly and are stored as standard VFAT entries."""
import json, struct, warnings, hashlib
import lib, fatimg, fatspec

SPEC = {
    'rule': 'systematic names (lengths 1..255 UTF-16 units incl. 12/13/14, 25/26/27, 254/255/256; case mixes; spaces; several '
            'and leading dots; characters outside Latin-1 and outside the BMP; pure 8.3 names with all-lower base and/or '
            'extension) created through the public API in directories pre-seeded with many names sharing the first six '
            'alias characters (numeric tails ~1..~N, names equal to another entry\'s alias); after each creation: listing '
            'shows exactly that name, lookups by case variants and by the 8.3 alias (taken from the extracted Coq '
            'specification reader) hit the same file, every other entry is byte-identical, the Coq structural check is '
            'clean (unique legal aliases, valid long-name runs), an independent raw decoder checks order / terminator / '
            'padding / checksum; invalid names must raise ValueError and leave the image untouched. Non-trivial = name '
            'needs long-name records or a numeric tail; distinct = distinct (directory state, name).',
    'trusted_base': [
        'Coq 8.16.1 kernel; theorems closed under the global context',
        'translator gen_fat.py (lfn_valid deny-list, MAX_SFN_SUFFIX, layouts); extraction + runner',
        'Unicode upper-casing and the OEM code page (iso-8859-1) are CPython\'s (model parameters)',
    ],
    'theorems': {},
    'assumptions': ['names compare case-insensitively as str.upper() does'],
}

VALID = ['a', 'A', 'a.b', 'readme.txt', 'README.TXT', 'Readme.Txt', 'readme.TXT', 'README.txt', 'lower', 'UPPER', 'MiXed',
         'x' * 8 + '.' + 'y' * 3, 'x' * 9, 'x' * 8 + '.yyyy', 'twelve chars', 'thirteen chars', 'fourteen chars.',
         'n' * 12, 'n' * 13, 'n' * 14, 'n' * 25, 'n' * 26, 'n' * 27, 'n' * 254, 'n' * 255, '.hidden', '..double', '...triple.x',
         'a.b.c.d', 'many   spaces in name', 'tab-less name', 'ünïcödé.txt', 'ß', 'ÿ.ÿ', 'Grüße an alle.doc',
         '日本語.txt', 'Ελληνικά αρχεία', 'кириллица.bin', 'emoji \U0001F600.bin', '\U0001F600' * 127, 'a\U0001F600' * 85,
         "it's (ok) #1 & co.$$$", 'x+y=z,ok;[1]', 'café', 'CAFÉ', 'file.', 'é', '~', 'a~1', 'ABCDEF~1.TXT', 'abcdef~1',
         'LONGFI~1.TXT', 'longfi~2.txt', 'trailing.dot.x', 'UPPER.lower', 'lower.UPPER', '12345678.123', '123456789.12', 'a b.c d',
         'Àb.txt', 'ÉCOLE.txt', 'Öl.TXT', 'þORN.Ñu', 'ÆÐ×Þ.dat', 'mixÉd.É',
         # a long name whose UPPER-CASED form looks like an alias with a numeric tail, then a name that would get that alias
         'straß~2', 'strassenbahn', 'groß~1.txt', 'grossartig.txt']
VALID = [n for n in VALID if not n.endswith(('.', ' '))]
INVALID = ['', ' ', 'a*b', 'a?b', 'a/b\\c', 'a\\b', 'a:b', 'a<b', 'a>b', 'a|b', 'a"b', 'trailing ', 'trailing.', ' leading',
           'n' * 256, 'new\nline', 'tab\tname', 'nul\0name', 'abc\n', '\U0001F600' * 128]


def raw_dir_records(spec_node, g, img):
    """the raw 32-byte records of a directory, read independently of nobodd and of the Coq reader"""
    if spec_node['chain']:
        data = b''.join(img[g['data_off'] + (c - 2) * g['cs']: g['data_off'] + (c - 1) * g['cs']] for c in spec_node['chain'])
    else:
        data = img[g['root_off']:g['root_off'] + g['root_size']]
    return [data[i:i + 32] for i in range(0, len(data), 32)]


def check_lfn_form(recs, idx, name, alias11):
    """records preceding short entry idx must be a standard run for `name`; returns error string or None"""
    units = name.encode('utf-16-le')
    n_units = len(units) // 2
    need = (n_units + 12) // 13
    run = recs[idx - need:idx]
    if len(run) != need:
        return 'run too short'
    cks = fatimg.lfn_checksum(alias11)
    got = b''
    for k, r in enumerate(run):
        seq = need - k
        want_seq = seq | (0x40 if k == 0 else 0)
        if r[0] != want_seq:
            return f'ordinal {r[0]:#x} at position {k}, expected {want_seq:#x}'
        if r[11] != 0x0F or r[12] != 0 or r[26:28] != b'\0\0':
            return 'attribute / reserved / cluster field not standard'
        if r[13] != cks:
            return f'checksum {r[13]:#x} != {cks:#x}'
    for r in reversed(run):
        got += r[1:11] + r[14:26] + r[28:32]
    want = units
    if n_units % 13:
        want += b'\0\0'
        want += b'\xff\xff' * ((13 - (n_units + 1) % 13) % 13)
    if got != want:
        return 'name units / NUL terminator / 0xFFFF padding not standard'
    if idx - need - 1 >= 0 and recs[idx - need - 1][11] == 0x0F and recs[idx - need - 1][0] not in (0xE5,):
        return 'extra long-name record before the run'
    return None


def pure83(name, latin1=False):
    """does the name fit 8.3 with optional all-lower base and/or extension (so no long-name records are needed)?"""
    if name in ('.', '..') or name.startswith('.'):
        return None
    base, dot, ext = name.partition('.') if name.count('.') <= 1 else (name, '', '')
    if name.count('.') > 1:
        return None
    ok = set("ABCDEFGHIJKLMNOPQRSTUVWXYZ0123456789!#$%&'()@^_`{}~-")
    if latin1:      # characters of the volume's code page (iso-8859-1) that are their own upper case
        ok |= {chr(c) for c in range(0x80, 0x100) if chr(c).upper() == chr(c)}
    def part(s, n):
        if len(s) > n or (n == 8 and not s):
            return None
        if all(c in ok for c in s):
            return 0
        if all(c.upper() in ok for c in s) and s == s.lower():
            return 1
        return None
    b, e = part(base, 8), (part(ext, 3) if dot else 0)
    if b is None or e is None or (dot and not ext):
        return None
    return (8 if b else 0) | (16 if e else 0)


def run(ctx, build):
    model_correspondence(ctx)
    from nobodd.fs import FatFileSystem
    R = ctx.runner('Fat')
    rng = ctx.rng
    tails = 1050 if ctx.thorough else 130
    if ctx.thorough:
        R.limit = 900       # a directory of 1300 long names on a 1.2 MB volume takes the list-based reader minutes, not a hang
    scenarios = [('fat12', False), ('fat16', True), ('fat32', True)] if not ctx.widen else [('fat12', False), ('fat16', True), ('fat32', True), ('fat16', False)]
    for ft, in_subdir in scenarios:
        g = fatimg.Geometry(ft, 2400 if ctx.thorough else 400, spc=1, bps=512, nfats=2, root_entries=(8192 if ctx.thorough else 1024), type_string=True)
        b = fatimg.Builder(g, rng)
        buf = bytearray(b.img)
        with warnings.catch_warnings():
            warnings.simplefilter('ignore')
            fs = FatFileSystem(memoryview(buf))
        try:
            if in_subdir:
                (fs.root / 'work dir').mkdir()
            class Fresh:
                # every access derives a fresh path from the root (as C04 prescribes)
                def __truediv__(self, n):
                    return (fs.root / 'work dir' / n) if in_subdir else (fs.root / n)
                def iterdir(self):
                    return ((fs.root / 'work dir') if in_subdir else fs.root).iterdir()
            base = Fresh()
            expected = {}        # upper name -> (name, content)
            alias_owner = {}
            def verify(name, what):
                vol = bytes(buf)
                info = dict(fat_type=ft, in_subdir=in_subdir, name=name, existing=[v[0] for v in expected.values()][-12:], n_existing=len(expected))
                probs = fatspec.spec_wf(R, vol)
                if probs:
                    ctx.violation('fs.names/structural:' + str(probs[0][0]), f'after creating {name!r}: {probs[:3]}', info)
                    return False
                geom, spec = fatspec.spec_abs(R, vol)
                node = spec
                if in_subdir:
                    node = next(k for k in spec['children'] if k['name'] == 'work dir')
                listed = {k['name'].upper(): k for k in node['children']}
                if sorted(listed) != sorted(expected) or any(listed[u]['name'] != expected[u][0] for u in expected):
                    missing = [expected[u][0] for u in expected if u not in listed or listed[u]['name'] != expected[u][0]][:3]
                    extra = [listed[u]['name'] for u in listed if u not in expected][:3]
                    ctx.violation('fs.names/listing', f'after creating {name!r} the independent reader lists names differently: missing/changed {missing}, unexpected {extra}', info)
                    return False
                for u, (nm, content) in expected.items():
                    if listed[u]['data'] != content:
                        ctx.violation('fs.names/shadowed', f'after creating {name!r} entry {nm!r} has different content (shadowed or merged)', info)
                        return False
                # nobodd's own listing and lookups
                got = sorted(p.name for p in base.iterdir())
                if got != sorted(v[0] for v in expected.values()):
                    want = sorted(v[0] for v in expected.values())
                    ctx.violation('fs.names/iterdir', f'iterdir after creating {name!r} differs from the names created: '
                                  f'only listed {[x for x in got if x not in want][:4]}, not listed {[x for x in want if x not in got][:4]}', info)
                    return False
                me = listed[name.upper()]
                for variant in {name, name.upper(), name.lower(), name.swapcase(), me['sfn']}:
                    try:
                        data = (base / variant).read_bytes()
                    except Exception as e:
                        data = f'{type(e).__name__}: {e}'
                    if data != expected[name.upper()][1]:
                        ctx.violation('fs.names/lookup-variant', f'{name!r} is not found (or wrong file) under {variant!r}: {str(data)[:60]}', info)
                        return False
                # standard stored form
                recs = raw_dir_records(node, geom, vol)
                idx = me['off']
                alias11 = recs[idx][:11]
                p83 = pure83(name)
                if p83 is not None:
                    if me['nlfn'] != 0 or (recs[idx][12] & 0x18) != p83:
                        ctx.violation('fs.names/pure-8.3-uses-lfn', f'{name!r} is pure 8.3 but was stored with {me["nlfn"]} long-name records / case flags {recs[idx][12]:#x} (expected {p83:#x})', info)
                        return False
                elif me['nlfn'] == 0:
                    # no long-name records although the name is not plain-ASCII 8.3: legitimate exactly when the name
                    # is 8.3 in the volume's code page (iso-8859-1) with all-lower parts flagged, so that the reader's
                    # lower-casing gives the name back (the listing comparison above has already checked that)
                    p83l = pure83(name, latin1=True)
                    if p83l is None or (recs[idx][12] & 0x18) != p83l:
                        ctx.violation('fs.names/lfn-missing', f'{name!r} is not an 8.3 name but was stored without long-name records (case flags {recs[idx][12]:#x})', info)
                        return False
                else:
                    err = check_lfn_form(recs, idx, name, alias11)
                    if err:
                        ctx.violation('fs.names/lfn-form', f'long-name records of {name!r} are not standard: {err}', info)
                        return False
                return True

            def create(name, kind):
                content = hashlib.sha1(name.encode('utf-8', 'surrogatepass')).digest()
                pre = bytes(buf)
                try:
                    (base / name).write_bytes(content)
                except Exception as e:
                    ctx.violation('fs.names/create-failed', f'creating valid name {name!r} raised {type(e).__name__}: {e}',
                                  dict(fat_type=ft, name=name, n_existing=len(expected)))
                    return False
                if name.upper() in expected:
                    expected[name.upper()] = (expected[name.upper()][0], content)     # same entry, name unchanged
                elif kind == 'alias-clash' and alias_owner.get(name.upper()):
                    owner = alias_owner[name.upper()]                                 # the 8.3 alias of an existing entry
                    expected[owner] = (expected[owner][0], content)
                else:
                    expected[name.upper()] = (name, content)
                needs_lfn = pure83(name) is None
                ctx.case((ft, len(expected), name), needs_lfn, kind)
                return True

            # 1. the list of valid names, verifying after each
            for name in VALID:
                if not create(name, 'valid-name') or not verify(expected[name.upper()][0], 'valid'):
                    return
            # case variants denote the same entry
            for name in ('README.TXT', 'grüsse an alle.DOC'.replace('grüsse', 'GRÜSSE'), 'LOWER'):
                n0 = len(expected)
                if name.upper() in expected:
                    if not create(name, 'case-variant') or len(expected) != n0 or not verify(expected[name.upper()][0], 'variant'):
                        return
            # short alias prefixes (the numeric tail grows into the prefix: AB~9 -> AB~10)
            for i in range(1, 14):
                name = 'a' + ' ' * i + 'b'
                if not create(name, 'short-prefix-tail') or (i in (1, 9, 10, 11, 13) and not verify(name, 'tail')):
                    return
            # 2. many names sharing the first six alias characters
            for k in range(1, tails + 1):
                name = f'Shared Prefix name {k}.txt'
                if not create(name, 'numeric-tail'):
                    return
                if k in (1, 2, 9, 10, 11, 99, 100, 101, 999, 1000, 1001, tails) or k % (211 if ctx.thorough else 97) == 0:
                    if not verify(name, 'tail'):
                        return
            # a name equal to an alias that is already in use / will be generated next
            for name in ('SHARED~1.TXT', 'shared~2.txt', f'SHARE~{tails + 1}.TXT'):
                if name.upper() in expected:
                    continue
                geom, spec = fatspec.spec_abs(R, bytes(buf))
                node = next(k for k in spec['children'] if k['name'] == 'work dir') if in_subdir else spec
                alias_owner.clear()
                alias_owner.update({k['sfn'].upper(): k['name'].upper() for k in node['children']})
                owner = alias_owner.get(name.upper())
                if not create(name, 'alias-clash') or not verify(expected[owner][0] if owner else name, 'alias'):
                    return
            if not create('Shared Prefix name after clash.txt', 'numeric-tail') or not verify('Shared Prefix name after clash.txt', 'tail'):
                return
            # 3. invalid names: ValueError, nothing written
            for name in INVALID:
              for how in ('write_bytes', 'mkdir', 'touch', 'open-x'):
                pre = bytes(buf)
                try:
                    p = (base / name) if name else (fs.root / 'work dir' / name if in_subdir else fs.root / name)
                    if how == 'write_bytes':
                        p.write_bytes(b'x')
                    elif how == 'mkdir':
                        p.mkdir()
                    elif how == 'touch':
                        p.touch()
                    else:
                        p.open('xb').close()
                    outcome = 'created'
                except ValueError:
                    outcome = 'ValueError'
                except Exception as e:
                    outcome = type(e).__name__
                ctx.case((ft, 'invalid', name, how), True, 'invalid-name-' + how)
                if name == '':
                    continue       # the empty name denotes the directory itself
                if outcome != 'ValueError' or bytes(buf) != pre:
                    ctx.violation('fs.names/invalid-accepted', f'invalid name {name!r} through {how}: outcome {outcome}, image changed: {bytes(buf) != pre}',
                                  dict(fat_type=ft, name=name, how=how))
                    return
            # 4. "." and ".." are references, not names: nothing may be created, removed or moved under them.
            #    In the root (which holds no dot entries) every attempt must be a ValueError; in a sub-directory the
            #    path denotes an existing directory, so IsADirectoryError / FileExistsError / 'not empty' are refusals too.
            #    Whatever the outcome: no byte of the image changes.
            victim = expected[next(iter(expected))][0]
            for name in ('.', '..'):
              for how in ('write_bytes', 'mkdir', 'mkdir-p', 'mkdir-p-below', 'touch', 'open-x', 'open-a', 'rename-onto', 'rename-dir-onto',
                          'rmdir', 'rename-from', 'unlink'):
                pre = bytes(buf)
                p = base / name
                try:
                    if how == 'write_bytes':
                        p.write_bytes(b'x')
                    elif how == 'mkdir':
                        p.mkdir()
                    elif how == 'mkdir-p':
                        p.mkdir(parents=True)
                    elif how == 'mkdir-p-below':
                        (base / 'no such dir' / name / 'leaf').mkdir(parents=True)
                    elif how == 'touch':
                        p.touch()
                    elif how == 'open-x':
                        p.open('xb').close()
                    elif how == 'open-a':
                        p.open('ab').close()
                    elif how == 'rename-onto':
                        (base / victim).rename(p)
                    elif how == 'rename-dir-onto':
                        (base / 'dots probe dir').mkdir()
                        pre = bytes(buf)
                        try:
                            (base / 'dots probe dir').rename(p)
                        finally:
                            if bytes(buf) == pre:
                                (base / 'dots probe dir').rmdir()
                                pre = bytes(buf)
                    elif how == 'rmdir':
                        p.rmdir()
                    elif how == 'rename-from':
                        p.rename(base / 'moved away')
                    else:
                        p.unlink()
                    outcome = 'done'
                except ValueError:
                    outcome = 'ValueError'
                except Exception as e:
                    outcome = type(e).__name__
                ctx.case((ft, 'dot-name', name, how), True, 'dot-name-' + how)
                if how == 'mkdir-p-below' and outcome == 'ValueError' and bytes(buf) != pre:
                    # the missing parent may have been created before the refusal; it must be an ordinary empty directory
                    probs = fatspec.spec_wf(R, bytes(buf))
                    if not probs and [q.name for q in (base / 'no such dir').iterdir()] == []:
                        (base / 'no such dir').rmdir()
                        continue
                allowed = {'ValueError'} if not in_subdir else {'ValueError', 'IsADirectoryError', 'FileExistsError', 'OSError', 'PermissionError'}
                if how in ('touch', 'open-a') and in_subdir:
                    allowed = allowed | {'done'}       # touching an existing directory changes nothing but its times
                if how in ('unlink', 'rmdir', 'rename-from') and not in_subdir:
                    allowed = {'FileNotFoundError', 'ValueError'}    # nothing of that name exists in the root
                changed = bytes(buf) != pre
                if outcome not in allowed or (changed and outcome != 'done'):
                    ctx.violation('fs.names/dot-name-accepted', f'{name!r} as the final component through {how}: outcome {outcome}, image changed: {changed}',
                                  dict(fat_type=ft, name=name, how=how, in_subdir=in_subdir))
                    return
                if changed:
                    probs = fatspec.spec_wf(R, bytes(buf))
                    listed = sorted(q.name for q in base.iterdir())
                    if probs or listed != sorted(v[0] for v in expected.values()):
                        ctx.violation('fs.names/dot-name-accepted', f'{name!r} as the final component through {how}: outcome {outcome}; afterwards {probs[:2]} '
                                      f'listing changed: {listed != sorted(v[0] for v in expected.values())}', dict(fat_type=ft, name=name, how=how, in_subdir=in_subdir))
                        return
        finally:
            try:
                fs.close()
            except Exception:
                pass
    ctx.sample(dict(names=VALID[:8], tails=tails))


def model_correspondence(ctx):
    """differential runs of the extracted Coq models of this property's cores against the real classes"""
    lib.corr_modules(ctx, SPEC, ['fat_names_corr', 'fat_dir_corr'])


def replay(ctx, obj):
    print(json.dumps(obj, indent=1)[:3000])
    return False
