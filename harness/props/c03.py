"""C03 -- Reading a FAT volume yields exactly what its on-disk structures define."""
import io, json, random, warnings, hashlib
import lib, fatimg, fatspec

SPEC = {
    'rule': 'volumes synthesised by an independent writer (harness/fatimg.py) over random legal geometries '
            '(bytes/sector 512..4096, sectors/cluster 1..8(128), 1-3 FATs, reserved sectors, root entries, 16/32-bit '
            'total field, FSInfo on/off, type string on/off) with fragmented chains, multi-cluster directories, long and '
            '8.3 names, NT case flags, 0x05 lead byte, deleted entries, volume labels and orphaned long-name runs; the '
            'tree (names, kinds, sizes, three timestamps, bytes) read through nobodd\'s path API is compared with the '
            'extracted Coq specification reader and with what the writer put there; seek/read scripts on every file vs '
            'io.BytesIO; image hash before/after. Non-trivial = volume with >= 3 entries; distinct = distinct image hash.',
    'trusted_base': [
        'Coq 8.16.1 kernel; theorems closed under the global context',
        'translator gen_fat.py: struct layouts (field offsets), table limits, thresholds, dirty bits',
        'extraction (ExtrOcamlBasic) + runner/driver.ml; harness/fatimg.py (independent writer)',
        'modelled not verified: struct, memoryview, datetime, the OEM code page decoder',
    ],
    'theorems': {},
    'assumptions': ['well-formed volume = what harness/fatimg.py writes plus the listed tolerated oddities'],
}

NAMES = ['config.txt', 'cmdline.txt', 'start4.elf', 'kernel8.img', 'bcm2711-rpi-4-b.dtb', 'A Long File Name.with.dots.txt',
         'überlänge-ß.dat', 'x', 'lower.txt', 'UPPER.TXT', 'Mixed.Case', '.hidden', 'no_ext_but_long_name', 'ünï.cöd',
         '日本語ファイル.txt', 'emoji \U0001F600 file.bin', 'thirteen_char', 'exactly26characterslongnam', 'a' * 255,
         'overlays', 'sub dir', 'b.c.d.e', 'trailing~1', "it's (ok) #1 & co.$$$",
         # a character outside the BMP whose surrogate pair straddles two long-name records (UTF-16 units 12|13, 25|26)
         'twelve chars\U0001F600 straddles.bin', 'b' * 25 + '\U0001F4BE second boundary.dat', 'c' * 12 + '\U0001F600' * 7]


def rand_geometry(rng, thorough):
    ft = rng.choice(['fat12', 'fat12', 'fat16', 'fat32'])
    bps = rng.choice([512, 512, 1024, 2048, 4096])
    spc = rng.choice([1, 1, 2, 4, 8] + ([64, 128] if thorough and bps == 512 else []))
    ncl = rng.randint(12, 90)
    if bps * spc > 8192:
        ncl = rng.randint(8, 20)
    kw = dict(spc=spc, bps=bps, nfats=rng.choice([1, 2, 2, 3]),
              reserved=rng.choice([None, None, 2, 5]) if ft != 'fat32' else rng.choice([None, 8, 33]),
              root_entries=rng.choice([16, 32, 64]) * (bps // 512),
              extra_fat_entries=rng.choice([0, 0, 7, 300]), fsinfo=rng.random() < 0.7,
              type_string=True, total32=rng.random() < 0.3)
    g = fatimg.Geometry(ft, ncl, **kw)
    return g


def true_size_geometry(rng, which, n=None):
    """volumes whose type follows from the cluster count alone (no type string)"""
    if n is not None:
        pass
    elif which == 'fat12':
        n = rng.choice([100, 4084])
    elif which == 'fat16':
        n = rng.choice([4085, 4200])
    else:
        return None
    return fatimg.Geometry(which, n, spc=1, bps=512, nfats=1, root_entries=16, type_string=False, fsinfo=False)


def populate(rng, b, budget):
    used = set()
    dirs = [b.tree]
    count = 0
    names_here = {id(b.tree): set()}
    for _ in range(budget):
        parent = rng.choice(dirs)
        name = rng.choice(NAMES)
        if rng.random() < 0.3:
            name = ''.join(rng.choice('abcXYZ012 _-.é') for _ in range(rng.randint(1, 30))).strip(' .') or 'q'
        key = name.upper()
        if key in names_here[id(parent)]:
            continue
        kind = rng.random()
        try:
            if kind < 0.08:
                b.plant_deleted(parent, rng.random() < 0.5)
            elif kind < 0.12:
                b.plant_label(parent)
            elif kind < 0.2:
                b.plant_orphan_run(parent, rng.choice(['bad-checksum', 'headless', 'before-deleted']))
            elif kind < 0.23 and 'QUARTE~1.DOC' not in names_here[id(parent)] and (b'QUARTE~1', b'DOC') not in used:
                b.plant_safe_save(parent, bytes(rng.getrandbits(8) for _ in range(rng.choice([0, 9, b.g.cs + 2]))))
                names_here[id(parent)].add('QUARTE~1.DOC')
                names_here[id(parent)].add('QUARTERLY REPORT 2024.DOC')
            elif kind < 0.35 and len(dirs) < 6:
                alias = fatimg.alias_for(name, used)
                n = b.add(parent, name, alias, is_dir=True)
                dirs.append(n); names_here[id(n)] = set(); names_here[id(parent)].add(key)
                names_here[id(parent)].add((alias[0].rstrip() + (b'.' + alias[1].rstrip() if alias[1].strip() else b'')).decode('latin-1').upper())
            elif kind < 0.5:
                # pure 8.3 entry without long-name records, with NT case flags
                base = ''.join(rng.choice('ABCDEFGH123_') for _ in range(rng.randint(1, 8)))
                ext = ''.join(rng.choice('TXDB1') for _ in range(rng.choice([0, 1, 3])))
                a2 = rng.choice([0, 8, 16, 24])
                shown = (base.lower() if a2 & 8 else base) + ('.' + (ext.lower() if a2 & 16 else ext) if ext else '')
                if shown.upper() in names_here[id(parent)]:
                    continue
                alias = (base.encode().ljust(8), ext.encode().ljust(3))
                if alias in used:
                    continue
                used.add(alias)
                data = bytes(rng.getrandbits(8) for _ in range(rng.choice([0, 1, 100, b.g.cs, b.g.cs + 1, 3 * b.g.cs - 1])))
                b.add(parent, shown, alias, data=data, lfn=False, attr2=a2, lead05=False)
                names_here[id(parent)].add(shown.upper())
            else:
                alias = fatimg.alias_for(name, used)
                data = bytes(rng.getrandbits(8) for _ in range(rng.choice([0, 1, 511, 512, 513, b.g.cs - 1, b.g.cs, b.g.cs + 1, 2 * b.g.cs, 5 * b.g.cs + 7])))
                times = (rng.choice([0x21, 0x5821, 0xFF9F & 0xFE00 | 0x21]) , rng.randrange(0, 0xBF7D), rng.randrange(0, 200),
                         rng.choice([0x21, 0x5822]), rng.choice([0x21, 0x5823, 0x7F9F]), rng.randrange(0, 0xBF7D))
                times = (times[0], times[1] & 0xBFFF if (times[1] >> 11) > 23 else times[1], times[2], times[3], times[4],
                         times[5] & 0xBFFF if (times[5] >> 11) > 23 else times[5])
                b.add(parent, name, alias, data=data, times=fix_times(times), ro=rng.random() < 0.1)
                names_here[id(parent)].add(key)
                names_here[id(parent)].add((alias[0].rstrip() + (b'.' + alias[1].rstrip() if alias[1].strip() else b'')).decode('latin-1').upper())
            count += 1
        except MemoryError:
            break
    return count


def fix_times(t):
    cd, ct, ccs, ad, md, mt = t
    def fix_time(x):
        h, m, s = x >> 11, (x >> 5) & 63, x & 31
        return (min(h, 23) << 11) | (min(m, 59) << 5) | min(s, 29)
    def fix_date(d):
        y, m, dd = d >> 9, (d >> 5) & 15, d & 31
        return (y << 9) | (max(1, min(m, 12)) << 5) | max(1, min(dd, 28))
    return (fix_date(cd), fix_time(ct), min(ccs, 199), fix_date(ad), fix_date(md), fix_time(mt))


def expected_tree(n):
    if n['kind'] == 'file':
        cd, ct, ccs, ad, md, mt = n['times']
        return ('F', n['name'], n['size'], (fatspec.fat_date(ad), fatspec.fat_date(md, mt), fatspec.fat_date(cd, ct, ccs)), n['data'])
    return ('D', n['name'], [expected_tree(k) for k in n['children']])


def first_diff(a, b, path=''):
    if a[0] != b[0] or a[1] != b[1]:
        return f'{path}: {a[:2]} vs {b[:2]}'
    if a[0] == 'F':
        for i, what in ((2, 'size'), (3, 'timestamps'), (4, 'content')):
            if a[i] != b[i]:
                return f'{path}/{a[1]}: {what} {str(a[i])[:60]} vs {str(b[i])[:60]}'
        return None
    if len(a[2]) != len(b[2]):
        return f'{path}/{a[1]}: children {[k[1] for k in a[2]]} vs {[k[1] for k in b[2]]}'
    for x, y in zip(a[2], b[2]):
        d = first_diff(x, y, path + '/' + a[1])
        if d:
            return d
    return None


def run(ctx, build):
    model_correspondence(ctx)
    from nobodd.fs import FatFileSystem
    R = ctx.runner('Fat')
    rng = ctx.rng
    nvol = 400 if ctx.thorough else 36
    if ctx.widen:
        nvol *= 2
    for i in range(nvol):
        top = False
        if i % 12 == 11:
            # both sides of the 4085 boundary come first (every run), then other counts
            which, n_true = [('fat16', 4085), ('fat12', 4084), ('fat12', 100), ('fat16', 4200), (rng.choice(['fat12', 'fat16']), None)][min(i // 12, 4)]
            g = true_size_geometry(rng, which, n_true)
        elif i % 12 == 5 or (ctx.thorough and i == 7):
            # (nearly) the largest volume of its type, allocated from the TOP: the highest cluster numbers overlap the values
            # that are reserved on smaller volumes (0xFF0..0xFF5 on FAT12, 0xFFF0..0xFFF5 on FAT16) and are still links
            top = True
            if ctx.thorough and i == 7:
                g = fatimg.Geometry('fat16', rng.choice([65519, 65524]), spc=1, bps=512, nfats=1, root_entries=16, type_string=False, fsinfo=False)
            else:
                g = fatimg.Geometry('fat12', rng.choice([4078, 4079, 4080, 4084]), spc=1, bps=512, nfats=rng.choice([1, 2]), root_entries=16,
                                    type_string=rng.random() < 0.5, fsinfo=False)
        else:
            g = rand_geometry(rng, ctx.thorough)
        b = fatimg.Builder(g, rng, fragment=(not top) and rng.random() < 0.5)
        if top:
            b.free = list(reversed(b.free))
        n = populate(rng, b, rng.choice([3, 10, 25, 60]))
        img = bytes(b.img)
        exp = expected_tree(b.tree)
        info = dict(geometry={k: v for k, v in vars(g).items()}, image=img if len(img) < 40000 else None, n_entries=n, allocated_from_the_top=top)
        if len(img) > 3_000_000:
            # too big for the list-based specification reader: what was written vs what nobodd reads
            geom, spec = None, 'skipped'
        else:
            geom, spec = fatspec.spec_abs(R, img)
        ctx.case(hashlib.sha1(img[:200000]).digest() + bytes([top]), n >= 3, g.fat_type + ('-top' if top else ''))
        if spec == 'skipped':
            pass
        elif spec is None:
            ctx.violation('spec/unreadable', f'Coq specification reader rejects a volume written by the harness ({g.fat_type})', info)
            continue
        if spec != 'skipped':
            sp = fatspec.canon_tree(spec)
            d = first_diff(exp, sp)
            if d:
                ctx.violation('spec/differs-from-writer', f'specification reader disagrees with what was written: {d}', info)
                continue
            if geom['bits'] != g.bits or geom['count'] != g.n_clusters or geom['data_off'] != g.data_off or geom['fat_off'] != g.fat_off:
                ctx.violation('spec/geometry', f'specification geometry {geom} differs from the formatter', info)
        mem = bytearray(img)
        try:
            with lib.time_limit(90, 'reading one volume through the path API'), warnings.catch_warnings():
                warnings.simplefilter('ignore')
                fs = FatFileSystem(memoryview(mem))
                try:
                    if fs.fat_type != g.fat_type:
                        ctx.violation('fs.fat_type', f'nobodd detects {fs.fat_type}, volume is {g.fat_type}', info)
                    got = fatspec.dump_nobodd(fs)
                    d = first_diff(exp, got)
                    if d:
                        ctx.violation('fs.read/tree-differs', f'tree read through the path API differs from the on-disk structures: {d}', info)
                    # lookups by case variants and alias; seek/read scripts
                    files = [(p, nd) for p, nd in walk_expected(b.tree)]
                    rng.shuffle(files)
                    for path, nd in files[:8]:
                        for variant in (path, path.upper(), path.lower(), alias_path(path, nd)):
                            try:
                                p = fs.root / variant.lstrip('/')
                                if not p.exists():
                                    raise FileNotFoundError(variant)
                                if nd['kind'] == 'file':
                                    with p.open('rb') as f:
                                        data = f.read()
                                    if data != nd['data']:
                                        ctx.violation('fs.read/lookup-content', f'{variant!r} read {len(data)} bytes, expected {len(nd["data"])}', info)
                            except (FileNotFoundError, ValueError) as e:
                                if isinstance(e, ValueError) and variant == alias_path(path, nd):
                                    continue
                                ctx.violation('fs.read/lookup', f'{variant!r} (variant of {path!r}) not found: {e}', info)
                        if nd['kind'] == 'file':
                            seek_read_script(ctx, rng, fs, path, nd['data'], info)
                finally:
                    fs.close()
        except lib.Hang as e:
            ctx.violation('fs.read/did-not-terminate', f'reading a well-formed {g.fat_type} volume: {e}', info)
            break               # do not wait for the same hang on every further volume
        except Exception as e:
            ctx.violation('fs.read/exception', f'reading a well-formed {g.fat_type} volume raised {type(e).__name__}: {e}', info)
        if bytes(mem) != img:
            ctx.violation('fs.read/image-modified', 'reading changed bytes of the image', info)
        if i < 2:
            ctx.sample(dict(fat_type=g.fat_type, bps=g.bps, spc=g.spc, clusters=g.n_clusters, entries=n,
                            names=[k[1] for k in exp[2]][:6]))


def walk_expected(t, path=''):
    for k in t['children']:
        p = path + '/' + k['name']
        yield p, k
        if k['kind'] == 'dir':
            yield from walk_expected(k, p)


def alias_path(path, nd):
    return path.rsplit('/', 1)[0] + '/' + nd['sfn']


def seek_read_script(ctx, rng, fs, path, content, info):
    ref = io.BytesIO(content)
    for buffering in (0, -1):
        ref.seek(0)
        with (fs.root / path.lstrip('/')).open('rb', buffering=buffering) as f:
            for _ in range(12):
                op = rng.choice(['read', 'read', 'seek', 'seekend', 'seekcur', 'readall', 'readinto'])
                try:
                    if op == 'read':
                        n = rng.choice([0, 1, 7, 512, 513, 5000])
                        a, e = f.read(n), ref.read(n)
                        if buffering == 0 and a is not None and len(a) < len(e):
                            # raw reads may be short: continue until satisfied
                            while len(a) < len(e):
                                more = f.read(len(e) - len(a))
                                if not more:
                                    break
                                a += more
                    elif op == 'readall':
                        a, e = f.read(), ref.read()
                        if buffering == 0:
                            pass
                    elif op == 'readinto':
                        n = rng.choice([1, 100, 1000])
                        ba, be = bytearray(n), bytearray(n)
                        ra = f.readinto(ba)
                        re_ = ref.readinto(be)
                        if buffering == 0 and ra < re_:
                            ref.seek(ref.tell() - (re_ - ra))
                            re_ = ra
                        a, e = bytes(ba[:ra]), bytes(be[:re_])
                    elif op == 'seek':
                        pos = rng.choice([0, 1, len(content) // 2, len(content), len(content) + 5])
                        a, e = f.seek(pos), ref.seek(pos)
                    elif op == 'seekend':
                        off = -rng.randint(0, len(content))
                        a, e = f.seek(off, 2), ref.seek(off, 2)
                    else:
                        cur = ref.tell()
                        off = rng.randint(-cur, 10)
                        a, e = f.seek(off, 1), ref.seek(off, 1)
                except Exception as ex:
                    ctx.violation('fs.read/seek-read-exception', f'{op} on {path!r} raised {type(ex).__name__}: {ex}', info)
                    return
                if a != e:
                    ctx.violation('fs.read/seek-read', f'{op} on {path!r} (buffering={buffering}) returned {str(a)[:40]} but in-memory content gives {str(e)[:40]}', info)
                    return


def model_correspondence(ctx):
    """differential runs of the extracted Coq models of this property's cores against the real classes"""
    lib.corr_modules(ctx, SPEC, ['fat_table_corr', 'fat_read_corr', 'fat_dir_corr', 'fat_walk_corr'])


def replay(ctx, obj):
    print(json.dumps(obj, indent=1)[:3000])
    return False
