"""C02 -- Requests are served only from the board's configured image, partition, IP."""
import json, os, struct, tempfile, warnings, hashlib, ipaddress
from pathlib import Path
import lib, fatimg, fatspec
from tftpdrv import Sim

SPEC = {
    'rule': 'disk images with four FAT volumes each, in MBR-primary, MBR-logical (four equal-sized logical volumes behind an extended partition) and GPT (sparse slots, 128/256-byte entries) layouts (distinct marker files per volume, shared names with different content, '
            'nested directories, long names) and a board table (several boards, shared image with different partitions, with and '
            'without ip=, IPv4 and IPv6); thousands of request names (well-formed serial/path in any case and with leading zeros; '
            '"..", ".", repeated and trailing slashes, absolute paths, backslashes, over-long and non-ASCII components, names '
            'invalid in FAT, lenient hex spellings) from several client addresses (IPv4, IPv6, IPv4-mapped IPv6) through the real '
            'BootHandler and the real do_RRQ ladder in-process; the reply must be the content of that path in the configured '
            'partition (read by the extracted Coq specification reader) or the right ERROR code; no byte of another volume or '
            'of the host file-system may appear. Non-trivial = request that reaches path resolution; distinct = distinct '
            '(board table, address, name).',
    'trusted_base': [
        'Coq 8.16.1 kernel; theorems closed under the global context',
        'translator gen_boot.py (resolve_path structure, comparison of the client address)',
        'Fat/Spec.v reader as oracle for partition content; harness/fatimg.py',
        'modelled not verified: pathlib.Path parsing of the request string, ipaddress, mmap',
    ],
    'theorems': {},
    'assumptions': ['an IPv4-mapped IPv6 client address denotes its IPv4 address'],
}


def make_volume(rng, tag, pn):
    ft = rng.choice(['fat12', 'fat16', 'fat32'])
    g = fatimg.Geometry(ft, 60, spc=1, bps=512, nfats=2, root_entries=64, type_string=True)
    b = fatimg.Builder(g, rng, fragment=rng.random() < 0.5)
    used = set()
    def add(parent, name, data=None, is_dir=False):
        return b.add(parent, name, fatimg.alias_for(name, used), data=data, is_dir=is_dir)
    add(b.tree, 'config.txt', f'config of {tag} partition {pn}\n'.encode() * 3)
    add(b.tree, 'cmdline.txt', f'console=serial0 root=/dev/{tag}p{pn}'.encode())
    add(b.tree, f'marker-{tag}-{pn}.bin', hashlib.sha256(f'{tag}{pn}'.encode()).digest() * 20)
    ov = add(b.tree, 'overlays', is_dir=True)
    add(ov, 'README', f'overlays of {tag}/{pn}'.encode())
    add(ov, 'a long overlay name.dtbo', bytes(rng.getrandbits(8) for _ in range(700)))
    deep = add(ov, 'deep', is_dir=True)
    add(deep, 'x.dat', f'deep file {tag}{pn}'.encode())
    add(b.tree, 'EMPTY', b'')
    return bytes(b.img)


def mbr_entry(ptype, first, size):
    return struct.pack('<B3sB3sII', 0, b'\0\0\0', ptype, b'\0\0\0', first, size)


def make_disk(rng, tmp, tag, layout='mbr-primary'):
    """A disk with four FAT volumes in the given partition-table layout; two of them are the ones boards refer to.
    Returns (path, [bytes of those two volumes], [their partition numbers])."""
    import zlib
    vols = [make_volume(rng, tag, k + 1) for k in range(4)]
    L = max(len(v) for v in vols) // 512 + rng.choice([0, 3])       # equal-sized slots
    lead = 8
    if layout == 'mbr-primary':
        # one of the four primary slots stays unused (the volume is on the disk but not in the table): a partition's
        # number is its slot, not its rank among the used slots
        unused = rng.choice([0, 1, 2, None])
        disk = bytearray(512 * (lead + 4 * L))
        for k, v in enumerate(vols):
            first = lead + k * L
            disk[512 * first:512 * first + len(v)] = v
            if k != unused:
                disk[446 + 16 * k:462 + 16 * k] = mbr_entry(rng.choice([0x0c, 0x0e, 0x06]), first, L)
        disk[510:512] = b'\x55\xaa'
        numbers = [1, 2, 3, 4]
    elif layout == 'mbr-logical':
        # one primary (a copy of volume 0 as a decoy), one extended partition with four logical volumes, each behind its EBR
        ext = lead + L
        disk = bytearray(512 * (ext + 4 * (L + 1)))
        disk[512 * lead:512 * lead + len(vols[0])] = vols[0]
        disk[446:462] = mbr_entry(0x0c, lead, L)
        disk[462:478] = mbr_entry(rng.choice([0x05, 0x0f]), ext, 4 * (L + 1))
        disk[510:512] = b'\x55\xaa'
        for k, v in enumerate(vols):
            ebr = ext + k * (L + 1)
            disk[512 * (ebr + 1):512 * (ebr + 1) + len(v)] = v
            disk[512 * ebr + 446:512 * ebr + 462] = mbr_entry(0x0c, 1, L)
            if k < 3:
                disk[512 * ebr + 462:512 * ebr + 478] = mbr_entry(0x05, (k + 1) * (L + 1), L + 1)
            disk[512 * ebr + 510:512 * ebr + 512] = b'\x55\xaa'
        numbers = [5, 6, 7, 8]
    else:
        esize = rng.choice([128, 128, 256])
        nent = 128
        tsec = nent * esize // 512
        numbers = sorted(rng.sample(range(1, 20), 4))
        if layout == 'gpt-hybrid':
            numbers = [2, 3] + sorted(rng.sample(range(4, 20), 2))
        first0 = 2 + tsec + 6
        total = first0 + 4 * L + 40
        disk = bytearray(512 * total)
        disk[446:462] = mbr_entry(0xee, 1, total - 1)
        disk[510:512] = b'\x55\xaa'
        table = bytearray(nent * esize)
        for k, (n, v) in enumerate(zip(numbers, vols)):
            first = first0 + k * L
            disk[512 * first:512 * first + len(v)] = v
            table[(n - 1) * esize:(n - 1) * esize + 128] = struct.pack(
                '<16s16sQQQ72s', bytes.fromhex('28732ac11ff8d211ba4b00a0c93ec93b'), hashlib.md5(f'{tag}{n}'.encode()).digest(),
                first, first + L - 1, 0, f'vol {k}'.encode('utf-16-le'))
        disk[1024:1024 + len(table)] = table
        if layout == 'gpt-hybrid':
            # a hybrid MBR (as gdisk writes it): 0xEE in slot 1 covering the GPT structures, then two of the GPT partitions
            # mirrored -- in the OTHER order, so that MBR partition 2 / 3 is GPT partition 3 / 2.  The disk is a GPT disk.
            disk[446:462] = mbr_entry(0xee, 1, first0 - 1)
            disk[462:478] = mbr_entry(0x0c, first0 + 1 * L, L)
            disk[478:494] = mbr_entry(0x0c, first0 + 0 * L, L)
        def header(crc):
            return struct.pack('<8sIII4xQQQQ16sQIII', b'EFI PART', 0x10000, 92, crc, 1, total - 1, first0, total - 34,
                               hashlib.md5(tag.encode()).digest(), 2, nent, esize, zlib.crc32(bytes(table)))
        disk[512:512 + 92] = header(zlib.crc32(header(0)))
    pick = sorted(rng.sample([k for k in range(4) if not (layout == 'mbr-primary' and k == unused)], 2))
    if layout == 'gpt-hybrid':
        pick = [0, 1]
    path = os.path.join(tmp, f'{tag}.img')
    with open(path, 'wb') as f:
        f.write(disk)
    return path, [vols[i] for i in pick], [numbers[i] for i in pick]


def spec_lookup(tree, parts):
    """resolve path components in a spec tree the way a FAT driver does ('.' / '..' are stored entries)"""
    stack = [tree]
    for p in parts:
        node = stack[-1]
        if node['kind'] != 'dir':
            return None
        if p == '.':
            continue
        if p == '..':
            if len(stack) > 1:
                stack.pop()
                continue
            return 'above-root'   # the root has no '..' entry: 'not found' and 'stay at the root' are both confined
        nxt = next((k for k in node['children'] if k['name'].upper() == p.upper() or k['sfn'].upper() == p.upper()), None)
        if nxt is None:
            return None
        stack.append(nxt)
    return stack[-1]


ADDRS = ['10.0.0.5', '10.0.0.6', '192.168.1.77', '::ffff:10.0.0.5', '::ffff:10.0.0.6', 'fd00::5', 'fd00::6', '127.0.0.1', '::1',
         # IPv6 addresses that merely END in the bytes of a board's IPv4 address (IPv4-compatible, NAT64, global, link-local),
         # and IPv4 addresses that are the tail of a board's IPv6 address: never the pinned host
         '::10.0.0.5', '64:ff9b::10.0.0.5', '2001:db8::a00:5', 'fe80::1:a00:5', '0.0.0.5', '::5']


def gen_names(rng, serials):
    known = ['config.txt', 'cmdline.txt', 'overlays/README', 'overlays/a long overlay name.dtbo', 'overlays/deep/x.dat', 'EMPTY',
             'marker-A-1.bin', 'marker-A-2.bin', 'marker-B-1.bin', 'marker-B-2.bin', 'overlays', 'missing.txt', 'overlays/missing']
    out = []
    for s in serials:
        hexes = [f'{s:x}', f'{s:X}', f'{s:08x}', f'0x{s:x}', f'{s:010x}', f' {s:x}', f'{s:x} ', f'+{s:x}', f'{s:x}'.replace('a', 'A', 1), f'{s:_x}' if s > 0xffff else f'{s:x}']
        for h in hexes:
            for k in known:
                out.append(f'{h}/{k}')
        base = f'{s:x}'
        out += [f'{base}/overlays/../config.txt', f'{base}/./config.txt', f'{base}//config.txt', f'{base}/config.txt/',
                f'{base}/overlays/deep/../../config.txt', f'{base}/../{base}/config.txt', f'{base}/../../etc/passwd',
                f'{base}/../config.txt', f'{base}/overlays/deep/../../../config.txt', f'/{base}/config.txt', f'//{base}/config.txt',
                f'{base}\\config.txt', f'{base}/overlays\\README', f'{base}/CONFIG.TXT', f'{base}/Overlays/readme', f'{base}/OVERLA~1/README',
                f'{base}/' + 'x' * 300, f'{base}/ünï.txt', f'{base}/con*fig.txt', f'{base}/a:b', f'{base}/ trailing ', f'{base}/x.', f'{base}',
                f'{base}/', f'{base}/..', f'{base}/.', f'{base}/overlays/..', f'{base}/\U0001F600.bin', f'{base}/config.txt\n', f'{base}/con\0fig']
    out += ['', '/', '.', '..', 'config.txt', 'zzzz/config.txt', 'deadbeef/config.txt', '/etc/passwd', '../../etc/passwd', 'g123/config.txt',
            '12 34/config.txt', '-1/config.txt', '1e5/config.txt', '0x/config.txt', 'é/config.txt']
    rng.shuffle(out)
    return out


def model_correspondence(ctx, RB, rng, boards, where, names):
    """BootHandler.resolve_path (up to the choice of image / partition) vs the extracted model"""
    import types, ipaddress
    from nobodd.server import BootHandler
    if RB is None:
        return
    # int(s, 16)
    samples = ['1234abcd', 'ABC', ' abc', 'abc ', '0xabc', '0XABC', '+abc', '-abc', 'a_b', 'a__b', '_ab', 'ab_', '0x_ab', '0x', '', ' ',
               'g', '12 34', '1e5', '0b11', '0o7', '00ff', '١٢', 'abc\t', '\nabc', 'é', '0xg', '+', '-', '+-1', 'x10', '0x+1', '٣']
    samples += [''.join(rng.choice('0123456789abcdefABCDEFxX_+- g') for _ in range(rng.randint(0, 7))) for _ in range(400)]
    for t in samples:
        if any(ord(c) > 127 for c in t):
            continue
        try:
            want = [int(t, 16)]
        except ValueError:
            want = []
        got = RB.call('int16', t)
        ctx.case(('int16', t), True, 'int16')
        if got != want:
            ctx.violation('model/int16', f'model int({t!r}, 16) = {got}, CPython {want}', dict(api='int16', s=t))
            return
    order = list(boards)
    mboards = []
    for sn in order:
        b = boards[sn]
        mboards.append((lib.Zint(sn), {'A': 1, 'B': 2}[where[sn][0]], b.partition, [b.ip.packed] if b.ip is not None else []))
    for name in names:
        if any(ord(c) > 127 or ord(c) < 0x20 for c in name):
            continue
        for addr in ADDRS[:6]:
            h = BootHandler.__new__(BootHandler)
            class FakeImages(dict):
                def __getitem__(s, k):
                    return (None, types.SimpleNamespace(root=Path('/VOLUME')))
            h.server = types.SimpleNamespace(boards=boards, images=FakeImages())
            h.client_address = (addr, 1069)
            try:
                r = h.resolve_path(name)
                got = [0] + list({v: k for k, v in where.items()}.get(None, ())) if False else [0]
                parts = Path(name).parts
                sn = int(parts[0], 16)
                got = [0, {'A': 1, 'B': 2}[where[sn][0]], boards[sn].partition]
            except FileNotFoundError:
                got = [1]
            except PermissionError:
                got = [2]
            except Exception as e:
                got = [type(e).__name__]
            ca = ipaddress.ip_address(addr)
            if getattr(ca, 'ipv4_mapped', None):
                ca = ca.ipv4_mapped
            m = RB.call('resolve', (mboards, [ca.packed], list(Path(name).parts)))
            ctx.case(('resolve', name, addr), True, 'resolve-model')
            if m[:3] != got[:3] if got[0] == 0 else m[:1] != got[:1]:
                ctx.violation('boot.resolve/model-mismatch', f'resolve_path({name!r}) from {addr}: implementation {got}, model {m[:3]}',
                              dict(name=name, client=addr, impl=got, model=m[:3]))
                return


LAYOUTS = [('mbr-logical', 'gpt-hybrid'), ('mbr-primary', 'mbr-logical'), ('gpt', 'mbr-primary')]


def config_scenario(ctx, R):
    """the board table loaded the way nobodd-tftpd loads it: several configuration files (vendor / system / user /
    conf.d), boards with relative and absolute image paths, explicit and default partitions, ip= ; each board must be
    served from the image NEXT TO THE FILE THAT DEFINES IT, from the configured partition"""
    from unittest import mock
    import nobodd.server as NS
    rng = ctx.rng
    with tempfile.TemporaryDirectory() as tmp:
        tmp = Path(tmp)
        dirs = {k: tmp / k for k in ('system', 'user', 'confd', 'elsewhere')}
        for d in dirs.values():
            (d / 'images').mkdir(parents=True)
        owners = {}          # serial -> (defining directory tag, volume index 1/2, partition number, ip)
        specs = {}
        disks = {}
        for tag, d in dirs.items():
            path, vols, nums = make_disk(rng, str(d / 'images'), tag[:3].upper(), rng.choice(['mbr-primary', 'gpt']))
            os.replace(path, d / 'images' / 'boot.img')          # the SAME relative name everywhere
            disks[tag] = (vols, nums)
            specs[tag] = [fatspec.spec_abs(R, v)[1] for v in vols]
        serials = dict(system=0xaaaa0001, user=0xbbbb0002, confd=0xcccc0003, elsewhere=0xdddd0004)
        part = {t: rng.choice([0, 1]) for t in serials}
        (dirs['system'] / 'nobodd.conf').write_text(
            f"[tftp]\nlisten = 127.0.0.1\nport = 1069\nincludedir = {dirs['confd']}\n\n"
            f"[board:{serials['system']:x}]\nimage = images/boot.img\npartition = {disks['system'][1][part['system']]}\n")
        (dirs['user'] / 'nobodd.conf').write_text(
            f"[board:{serials['user']:x}]\nimage = images/boot.img\npartition = {disks['user'][1][part['user']]}\nip = 10.0.0.5\n\n"
            f"[board:{serials['elsewhere']:x}]\nimage = {dirs['elsewhere'] / 'images' / 'boot.img'}\npartition = {disks['elsewhere'][1][part['elsewhere']]}\n")
        (dirs['confd'] / '10-more.conf').write_text(
            f"[board:{serials['confd']:x}]\nimage = images/boot.img\npartition = {disks['confd'][1][part['confd']]}\n")
        locations = (tmp / 'vendor' / 'nobodd.conf', dirs['system'] / 'nobodd.conf', dirs['user'] / 'nobodd.conf')
        with mock.patch.object(NS, 'CONFIG_LOCATIONS', locations), warnings.catch_warnings():
            warnings.simplefilter('ignore')
            conf = NS.get_parser().parse_args([])
        boards = {b.serial: b for b in conf.boards}
        images = {}
        for tag, serial in serials.items():
            ctx.case(('config', tag, part[tag]), True, 'config-' + tag)
            info = dict(defined_in=tag, serial=f'{serial:x}', boards={f'{k:x}': [str(v.image), v.partition, str(v.ip)] for k, v in boards.items()})
            if serial not in boards:
                ctx.violation('boot.config/board-missing', f'board {serial:x} defined in the {tag} configuration is not in the table', info)
                return
            want = spec_lookup(specs[tag][part[tag]], ['config.txt'])['data']
            for addr, allowed in (('10.0.0.5', True), ('10.0.0.6', tag != 'user')):
                sim = Sim({}, handler_cls=NS.BootHandler, server_attrs=dict(boards=boards, images=images), addr_fn=lambda n, a=addr: (a, 1069))
                try:
                    with warnings.catch_warnings():
                        warnings.simplefilter('ignore')
                        sent, _ = sim.packet(0, 1, b'\0\1%x/config.txt\0octet\0blksize\x001468\0' % serial, 1000)
                        got = None
                        if len(sent) == 1 and sent[0][1][:2] == b'\0\6':
                            out = sim.packet(sent[0][0], 1, b'\0\4\0\0', 2000)[0]
                            got = out[0][1][4:] if out and out[0][1][:2] == b'\0\3' else None
                        elif len(sent) == 1 and sent[0][1][:2] == b'\0\5':
                            got = ('error', sent[0][1][2] * 256 + sent[0][1][3])
                finally:
                    sim.restore()
                if allowed and got != want:
                    ctx.violation('boot.config/wrong-image', f'board {serial:x} is defined in {tag}/ with image = '
                                  f'{"an absolute path" if tag == "elsewhere" else "images/boot.img (relative to that file)"}, partition '
                                  f'{disks[tag][1][part[tag]]}: a request from {addr} got {str(got)[:60]!r} instead of that volume\'s config.txt', info)
                    return
                if not allowed and got != ('error', 2):
                    ctx.violation('boot.config/ip-not-enforced', f'board {serial:x} has ip = 10.0.0.5 but {addr} got {str(got)[:60]!r}', info)
                    return


def reload_scenario(ctx):
    """the board table after a reload (SIGHUP) is the one the configuration defines NOW: nobodd.server.main is run with its
    request loop replaced by one that records the table it is given, rewrites the configuration and asks for a reload --
    a removed board must be gone, a moved board must name its new partition, an added ip= must be there"""
    from unittest import mock
    import io, contextlib
    import nobodd.server as NS
    with tempfile.TemporaryDirectory() as tmp:
        tmp = Path(tmp)
        conf = tmp / 'nobodd.conf'
        (tmp / 'a.img').write_bytes(b'')
        (tmp / 'b.img').write_bytes(b'')
        def write(boards):
            conf.write_text('[tftp]\nlisten = 127.0.0.1\nport = 1069\n\n' + ''.join(
                f'[board:{s:x}]\nimage = {img}\npartition = {p}\n' + (f'ip = {ip}\n' if ip else '') + '\n' for s, (img, p, ip) in boards.items()))
        first = {0xaaaa0001: ('a.img', 1, None), 0xaaaa0002: ('a.img', 1, None), 0xaaaa0003: ('b.img', 2, None)}
        second = {0xaaaa0002: ('a.img', 2, None), 0xaaaa0003: ('b.img', 2, '10.0.0.9'), 0xaaaa0004: ('b.img', 1, None)}
        write(first)
        seen = []
        def loop(server_address, boards):
            seen.append({s: (b.image.name, b.partition, str(b.ip) if b.ip is not None else None) for s, b in boards.items()})
            if len(seen) == 1:
                write(second)
                raise NS.ReloadRequest()
            raise NS.TerminateRequest(0)
        err = io.StringIO()
        with mock.patch.object(NS, 'CONFIG_LOCATIONS', (conf,)), mock.patch.object(NS, 'request_loop', loop), \
                warnings.catch_warnings(), contextlib.redirect_stderr(err):
            warnings.simplefilter('ignore')
            try:
                with lib.time_limit(20, 'nobodd.server.main with a recording request loop'):
                    rc = NS.main([])
            except BaseException as e:
                rc = f'{type(e).__name__}: {e}'
        ctx.case(('reload',), True, 'config-reload')
        info = dict(first_config={f'{k:x}': v for k, v in first.items()}, second_config={f'{k:x}': v for k, v in second.items()},
                    tables_seen=[{f'{k:x}': v for k, v in t.items()} for t in seen], rc=str(rc), stderr=err.getvalue()[-300:])
        if rc != 0 or len(seen) != 2 or seen[0] != first:
            ctx.violation('boot.config/reload-harness', f'main() with the recording loop: rc {rc}, {len(seen)} tables, first table as configured: {seen[:1] == [first]}', info)
            return
        if seen[1] != second:
            diff = sorted(f'{k:x}' for k in set(seen[1]) | set(second) if seen[1].get(k) != second.get(k))
            ctx.violation('boot.config/stale-after-reload', f'after the configuration was rewritten and a reload requested, boards {diff} are still served as before '
                          f'(table {info["tables_seen"][1]}, configuration {info["second_config"]})', info)


def run(ctx, build):
    from nobodd.server import BootHandler
    from nobodd.config import Board
    R = ctx.runner('Fat')
    RB = ctx.try_runner('Boot')
    rng = ctx.rng
    # resolution inside the volume ('.' / '..' through the dot entries): FatPath._resolve vs the FatVol model and the tree walk
    lib.corr_modules(ctx, SPEC, ['fat_walk_corr'])
    tables = 150 if ctx.thorough else 3
    if ctx.widen:
        tables += 1
    reload_scenario(ctx)
    if ctx.violations:
        return
    for _ in range(4 if ctx.thorough else 1):
        config_scenario(ctx, R)
        if ctx.violations:
            return
    for tb in range(tables):
        with tempfile.TemporaryDirectory() as tmp:
            la, lb = LAYOUTS[tb % len(LAYOUTS)]
            pa, va, na = make_disk(rng, tmp, 'A', la)
            pb, vb, nb = make_disk(rng, tmp, 'B', lb)
            ctx.stat(f'layout-{la}'); ctx.stat(f'layout-{lb}')
            secret = os.path.join(tmp, 'host-secret.txt')
            open(secret, 'w').write('HOST SECRET')
            specs = {('A', 1): fatspec.spec_abs(R, va[0])[1], ('A', 2): fatspec.spec_abs(R, va[1])[1],
                     ('B', 1): fatspec.spec_abs(R, vb[0])[1], ('B', 2): fatspec.spec_abs(R, vb[1])[1]}
            s1, s2, s3, s4 = 0x1234abcd, 0xabc, 0x99887766, 0x10
            boards = {
                s1: Board(s1, Path(pa), na[0], None),
                s2: Board(s2, Path(pa), na[1], ipaddress.ip_address('10.0.0.5')),
                s3: Board(s3, Path(pb), nb[0], ipaddress.ip_address('fd00::5')),
                s4: Board(s4, Path(pb), nb[1], None),
            }
            where = {s1: ('A', 1), s2: ('A', 2), s3: ('B', 1), s4: ('B', 2)}
            all_content = {}
            for key, sp in specs.items():
                def walk(n, out):
                    for k in n['children']:
                        if k['kind'] == 'file':
                            out.append(k['data'])
                        else:
                            walk(k, out)
                all_content[key] = []
                walk(sp, all_content[key])
            images = {}
            before = {p: hashlib.sha256(open(p, 'rb').read()).hexdigest() for p in (pa, pb)}
            names = gen_names(rng, list(boards))
            if not ctx.thorough:
                names = names[:600]
            model_correspondence(ctx, RB, rng, boards, where, names[:300] if not ctx.thorough else names)
            try:
                for i, name in enumerate(names):
                    addr = rng.choice(ADDRS)
                    sim = Sim({}, handler_cls=BootHandler, server_attrs=dict(boards=boards, images=images),
                              addr_fn=lambda n, a=addr: (a, 1069) if ':' not in a else (a, 1069, 0, 0))
                    try:
                        try:
                            dgram = b'\0\1' + name.encode('utf-8') + b'\0octet\0blksize\x001468\0'
                        except UnicodeEncodeError:
                            continue
                        if b'\0' in name.encode('utf-8'):
                            continue
                        with warnings.catch_warnings():
                            warnings.simplefilter('ignore')
                            sent, raised = sim.packet(0, 1, dgram, 1000)
                            # expected outcome from the property statement
                            first = name.split('/')[0] if not name.startswith('/') else None
                            parts = [p for p in Path(name).parts]
                            exp = None
                            serial = None
                            if parts:
                                try:
                                    serial = int(parts[0], 16)
                                except ValueError:
                                    serial = None
                            if any(ord(c) < 0x20 for c in name) or name == '':
                                exp = ('error-any',)      # not a well-formed RRQ at all
                            elif serial is None or serial not in boards:
                                exp = ('error', 1)
                            else:
                                board = boards[serial]
                                ca = ipaddress.ip_address(addr)
                                if getattr(ca, 'ipv4_mapped', None):
                                    ca = ca.ipv4_mapped
                                if board.ip is not None and ca != board.ip:
                                    exp = ('error', 2)
                                else:
                                    node = spec_lookup(specs[where[serial]], parts[1:])
                                    if node == 'above-root':
                                        exp = ('error-any',)
                                    elif node is None:
                                        exp = ('error', 1)
                                    elif node['kind'] == 'dir':
                                        exp = ('error-any',)
                                    else:
                                        exp = ('data', node['data'])
                            ctx.case((tb, addr, name), serial in boards if serial is not None else False,
                                     exp[0] + (str(exp[1]) if exp[0] == 'error' else ''))
                            # what was actually sent
                            got = None
                            if len(sent) == 1 and sent[0][1][:2] == b'\0\5':
                                got = ('error', struct.unpack('!H', sent[0][1][2:4])[0])
                            elif len(sent) == 1 and sent[0][1][:2] == b'\0\6':
                                tid = sent[0][0]
                                out = sim.packet(tid, 1, b'\0\4\0\0', 2000)[0]
                                data = b''
                                blk = 1
                                while out and out[0][1][:2] == b'\0\3':
                                    data += out[0][1][4:]
                                    if len(out[0][1]) - 4 < 1468:
                                        break
                                    out = sim.packet(tid, 1, struct.pack('!HH', 4, blk), 2000 + blk)[0]
                                    blk += 1
                                got = ('data', data)
                            elif not sent:
                                got = ('nothing', raised)
                            else:
                                got = ('other', sent[0][1][:20])
                            info = dict(name=name, client=addr, boards={f'{k:x}': [str(v.image.name), v.partition, str(v.ip)] for k, v in boards.items()})
                            if got[0] == 'data' and exp[0] == 'error-any' and serial in boards and \
                                    got[1] in all_content[where[serial]]:
                                pass       # confined to the board's own volume
                            elif got[0] == 'data':
                                if exp[0] != 'data' or got[1] != exp[1]:
                                    foreign = [k for k, lst in all_content.items() if got[1] in lst and (serial is None or k != where.get(serial))]
                                    ctx.violation('boot.resolve/served-wrong-content',
                                                  f'request {name!r} from {addr} was served {len(got[1])} bytes; expected {exp[0]}'
                                                  + (f'; the bytes belong to {foreign}' if foreign else ''), info)
                                    return
                            elif exp[0] == 'data':
                                ctx.violation('boot.resolve/refused-valid' + (':ip' if got == ('error', 2) else ''),
                                              f'request {name!r} from {addr} should be served ({len(exp[1])} bytes of board {serial:x}) but got {got}', info)
                                return
                            elif exp[0] == 'error' and got[0] == 'error' and got[1] != exp[1] and not (exp[1] == 1 and got[1] == 0):
                                ctx.violation('boot.resolve/wrong-error', f'request {name!r} from {addr}: expected ERROR {exp[1]}, got ERROR {got[1]}', info)
                                return
                    finally:
                        sim.restore()
                        for s in list(sim.subs.values()):
                            s.client_state.close()
            finally:
                for image, fs in images.values():
                    fs.close(); image.close()
            after = {p: hashlib.sha256(open(p, 'rb').read()).hexdigest() for p in (pa, pb)}
            if after != before:
                ctx.violation('boot.serve/image-modified', 'an image file changed while serving', dict(before=before, after=after))
    ctx.sample(dict(name='1234abcd/overlays/../config.txt', client='10.0.0.6', expect='data of board 1234abcd partition 1'))


def replay(ctx, obj):
    print(json.dumps(obj, indent=1)[:3000])
    return False
