"""C07 -- Concurrent transfers are independent and the listening port stays live."""
import json, struct, tempfile
import lib
from tftpnet import RfcClient, run_network
from tftpdrv import addr_of
import realserver

SPEC = {
    'rule': 'N = 2..6 simultaneous in-process transfers (shared and distinct files, mixed block sizes, some clients '
            'stalling / erroring / vanishing) driven by seeded interleavings at datagram granularity under an '
            'adversarial network; event lists replayed on the extracted model; oracle: every client that finishes '
            'holds exactly its file, every DATA carries its own file\'s bytes, a fresh request is answered while the '
            'others stall. A real threaded server over loopback UDP with scripted stalling clients is the runtime '
            'tier. Non-trivial = at least two transfers overlap; distinct = distinct event list.',
    'trusted_base': [
        'Coq 8.16.1 kernel; theorems closed under the global context',
        'translator gen_tftp.py; extraction + runner; harness fake sockets / virtual clock',
        'NOT covered by the theorems (runtime residue): pre-emptive interleaving inside handlers, the GIL, '
        'TFTPSubServers._lock contention, OS port allocation -- observed only by the real-UDP tier',
    ],
    'theorems': {},
    'assumptions': ['each transfer owns its source object (one open per request)'],
}

REAL = r'''
import random
rng = random.Random(%(seed)d)
with tempfile.TemporaryDirectory() as d:
    files = {}
    for i in range(4):
        data = bytes(rng.getrandbits(8) for _ in range(rng.choice([0, 100, 511, 512, 513, 3000, 20000])))
        files['f%%d' %% i] = data
        open(os.path.join(d, 'f%%d' %% i), 'wb').write(data)
    srv, th = start(d)
    res = {'clients': [], 'fresh_latency_ms': None}
    clients = []
    def worker(i):
        name = 'f%%d' %% (i %% 4)
        c = Client(srv.server_address)
        opts = [(b'blksize', str(rng.choice([8, 64, 512, 1468])).encode())] if i %% 2 else []
        role = ['run', 'run', 'stall', 'vanish', 'error'][i %% 5]
        c.rrq(name.encode(), b'octet', opts)
        if role == 'run':
            c.run()
        elif role == 'stall':
            c.step(); c.step(); time.sleep(0.8); c.run()
        elif role == 'vanish':
            c.step()
        elif role == 'error':
            c.step()
            if c.peer: c.s.sendto(b'\0\5\0\0bye\0', c.peer)
        res['clients'].append(dict(i=i, role=role, name=name, finished=c.finished, ok=(c.buf == files[name]),
                                   got=len(c.buf), want=len(files[name]), error=(c.error or b'').hex()))
        c.close()
    ths = [threading.Thread(target=worker, args=(i,)) for i in range(%(n)d)]
    for t in ths: t.start()
    time.sleep(0.3)     # others are mid-transfer / stalled now
    t0 = time.time()
    c = Client(srv.server_address); c.rrq(b'f1'); c.run()
    res['fresh_latency_ms'] = (time.time() - t0) * 1000
    res['fresh_ok'] = (c.finished and c.buf == files['f1'])
    c.close()
    for t in ths: t.join(20)
    res['alive_threads'] = sum(t.is_alive() for t in ths)
    # a transfer that negotiated a long (legal) timeout ends; the listening port must answer the next request at once
    c = Client(srv.server_address); c.rrq(b'f1', b'octet', [(b'timeout', b'200')]); c.run(); ok_long = c.finished; c.close()
    time.sleep(0.05)
    t0 = time.time()
    c = Client(srv.server_address, 4.0); c.rrq(b'f2'); c.run()
    res['after_long_timeout'] = dict(long_ok=ok_long, ok=(c.finished and c.buf == files['f2']), latency_ms=(time.time() - t0) * 1000)
    c.close()
    srv.shutdown(); srv.server_close()
print(json.dumps(res))
'''


def wire_content(content, mode):
    """what travels on the wire: the bytes themselves, or their netascii form (LF -> CR LF, CR -> CR NUL)"""
    if mode != 'netascii':
        return content
    out = bytearray()
    for ch in content:
        out += b'\r\n' if ch == 10 else b'\r\0' if ch == 13 else bytes([ch])
    return bytes(out)


def boards_overlap(ctx):
    """the real BootHandler in-process: boards sharing one image file on different partitions, and a board on another
    image, transfer the same file names at the same time in seeded interleavings; each must receive its own volume's bytes"""
    import tempfile, warnings, ipaddress
    from pathlib import Path
    from nobodd.server import BootHandler
    from nobodd.config import Board
    from tftpdrv import Sim
    from props import c02
    rng = ctx.rng
    R = ctx.runner('Fat')
    import fatspec
    for rnd in range(18 if ctx.thorough else 2):
        with tempfile.TemporaryDirectory() as tmp:
            la, lb = c02.LAYOUTS[rnd % len(c02.LAYOUTS)]
            pa, va, na = c02.make_disk(rng, tmp, 'A', la)
            pb, vb, nb = c02.make_disk(rng, tmp, 'B', lb)
            specs = [fatspec.spec_abs(R, v)[1] for v in (va[0], va[1], vb[0])]
            serials = [0x1111aaaa, 0x2222bbbb, 0x3333cccc]
            boards = {serials[0]: Board(serials[0], Path(pa), na[0], None), serials[1]: Board(serials[1], Path(pa), na[1], None),
                      serials[2]: Board(serials[2], Path(pb), nb[0], None)}
            images = {}
            order = list(range(3)) * 2
            rng.shuffle(order)                      # two transfers per board, started in a random order
            names = ['config.txt', 'cmdline.txt', 'overlays/README', 'overlays/a long overlay name.dtbo']
            sim = Sim({}, handler_cls=BootHandler, server_attrs=dict(boards=boards, images=images))
            try:
                with warnings.catch_warnings():
                    warnings.simplefilter('ignore')
                    live = []
                    now = 1000
                    for cid, b in enumerate(order, start=1):
                        name = rng.choice(names)
                        want = c02.spec_lookup(specs[b], name.split('/'))['data']
                        bs = rng.choice([8, 64, 512, 700, 1428, 1468])     # also sizes that do not divide the cluster size
                        sent, _ = sim.packet(0, cid, b'\0\1%x/%s\0octet\0blksize\0%d\0' % (serials[b], name.encode(), bs), now)
                        now += 7
                        if len(sent) != 1 or sent[0][1][:2] != b'\0\6':
                            ctx.violation('boot.concurrent/request-refused', f'board {serials[b]:x} request for {name} while {len(live)} transfers run: {sent}',
                                          dict(layouts=[la, lb], order=order))
                            return
                        live.append(dict(cid=cid, tid=sent[0][0], board=b, name=name, want=want, bs=bs, got=b'', next=0, done=False))
                        # let a random running transfer make a little progress in between
                        for _ in range(rng.randint(0, 3)):
                            t = rng.choice(live)
                            if not t['done']:
                                step_transfer(ctx, sim, t, now, serials, la, lb, order)
                                now += 3
                    while any(not t['done'] for t in live):
                        t = rng.choice([t for t in live if not t['done']])
                        if not step_transfer(ctx, sim, t, now, serials, la, lb, order):
                            return
                        now += 3
                    for t in live:
                        ctx.case(('boards', rnd, t['cid'], t['board'], t['name']), True, 'boards-overlap')
            finally:
                sim.restore()


def step_transfer(ctx, sim, t, now, serials, la, lb, order):
    sent, _ = sim.packet(t['tid'], t['cid'], b'\0\4' + struct.pack('!H', t['next']), now)
    if len(sent) != 1 or sent[0][1][:2] != b'\0\3' or struct.unpack('!H', sent[0][1][2:4])[0] != t['next'] + 1:
        ctx.violation('boot.concurrent/no-data', f'board {serials[t["board"]]:x} {t["name"]}: ACK {t["next"]} answered by {sent}',
                      dict(layouts=[la, lb], order=order))
        t['done'] = True
        return False
    t['next'] += 1
    payload = sent[0][1][4:]
    t['got'] += payload
    if t['got'] != t['want'][:len(t['got'])]:
        ctx.violation('boot.concurrent/foreign-bytes',
                      f'board {serials[t["board"]]:x} asked for {t["name"]} while other boards\' transfers overlap and received bytes that are '
                      f'not its own volume\'s (block {t["next"]})', dict(layouts=[la, lb], order=order, board=t['board']))
        t['done'] = True
        return False
    if len(payload) < t['bs']:
        t['done'] = True
        if t['got'] != t['want']:
            ctx.violation('boot.concurrent/short', f'board {serials[t["board"]]:x} {t["name"]}: {len(t["got"])} of {len(t["want"])} bytes', {})
            return False
    return True


def own_ports(ctx):
    """'each run on their own server port': the sub-servers of simultaneously live transfers (created exactly as do_RRQ
    creates them) must hold pairwise different UDP ports, none of them the listening port.  The kernel picks the port, so
    this is observed on real sockets, with enough live transfers that a port handed out twice cannot be missed."""
    import io, resource
    from nobodd import tftpd
    soft, hard = resource.getrlimit(resource.RLIMIT_NOFILE)
    want = 3000 if ctx.thorough else 1500
    try:
        resource.setrlimit(resource.RLIMIT_NOFILE, (min(hard, max(soft, want + 500)), hard))
    except (ValueError, OSError):
        pass
    limit = resource.getrlimit(resource.RLIMIT_NOFILE)[0]
    n = max(50, min(want, limit - 300))
    with tempfile.TemporaryDirectory() as d:
        srv = tftpd.SimpleTFTPServer(('127.0.0.1', 0), d)
        subs = []
        class Src:                       # TFTPClientState opens its source through path.open('rb')
            def open(self, mode='rb'):
                return io.BytesIO(b'x')
        src = Src()
        try:
            main_port = srv.server_address[1]
            for i in range(n):
                state = tftpd.TFTPClientState(('127.0.0.1', 20000 + i), src)
                try:
                    subs.append(tftpd.TFTPSubServer(srv, state))
                except OSError as e:
                    ctx.note = f'own_ports stopped at {i} sub-servers: {e}'
                    break
            ports = [x.server_address[1] for x in subs]
            ctx.case(('own-ports', len(ports)), len(ports) >= 50, 'own-ports')
            ctx.stat('own-ports-live-subservers', len(ports))
            seen = {}
            for k, p in enumerate(ports):
                if p in seen or p == main_port:
                    ctx.violation('tftpd.concurrent/shared-port',
                                  f'with {len(ports)} transfers live, transfer #{k} was given UDP port {p}, which '
                                  f'{"the listening socket" if p == main_port else "live transfer #%d" % seen[p]} already holds '
                                  f'({len(ports) - len(set(ports))} ports handed out twice in all)',
                                  dict(live=len(ports), port=p, first=seen.get(p), second=k,
                                       reuse_address=bool(getattr(tftpd.TFTPSubServer, 'allow_reuse_address', False)),
                                       reuse_port=bool(getattr(tftpd.TFTPSubServer, 'allow_reuse_port', False))))
                    break
                seen[p] = k
        finally:
            for x in subs:
                try:
                    x.server_close()
                except Exception:
                    pass
            srv.server_close()


def run(ctx, build):
    R = ctx.try_runner('Tftp')
    lib.corr_modules(ctx, SPEC, ['registry_corr'])     # the concurrent registry: real TFTPSubServers under a scheduler shim vs the model
    rng = ctx.rng
    nsess = 4000 if ctx.thorough else 45
    if ctx.widen:
        nsess *= 2
    for i in range(nsess):
        N = rng.choice([2, 2, 3, 4, 6])
        files = {}
        for k in range(3):
            ln = rng.choice([0, 1, 15, 16, 17, 100, 512, 513, 1100])
            files[f'f{k}'] = bytes((j * (k + 3) + k) % 256 for j in range(ln))
        texts = []
        for k in range(2):          # ASCII text for the netascii clients (the transcoder decodes its source as ASCII)
            ln = rng.choice([0, 1, 40, 511, 600, 1500])
            files[f't{k}'] = bytes(rng.choice(b'abcdefgh \n\n\r\t.') for _ in range(ln))
            texts.append(f't{k}')
        clients = []
        for cid in range(1, N + 1):
            opts = {}
            if rng.random() < 0.7:
                opts['blksize'] = rng.choice([8, 16, 512, 1468])
            if rng.random() < 0.3:
                clients.append(RfcClient(cid, rng.choice(texts), 'netascii', opts))
            else:
                clients.append(RfcClient(cid, rng.choice(list(files)), 'octet', opts))
        stalled = tuple(c.cid for c in clients if rng.random() < 0.25)
        profile = dict(drop=rng.choice([0, .1]), dup=rng.choice([0, .1]), reorder=rng.choice([.3, .8]),
                       tick=rng.choice([0, .1]), foreign=rng.choice([0, .05]), rrq_again=0.02, client_retx=0.05,
                       reap=0.03, stalled=stalled, stall_after=rng.choice([1, 2, 3]))
        bycid = {c.cid: c for c in clients}
        def check(S, from_tid, b, cid):
            if from_tid == 0 or cid is None or b[:2] != b'\0\3':
                return
            sub = S.sim.subs.get(from_tid)
            if sub is None:
                return
            c = bycid[cid]
            B = sub.client_state.block_size
            k = b[2] * 256 + b[3]
            content = wire_content(files[c.filename], c.mode)
            if b[4:] != content[(k - 1) * B:k * B]:
                ctx.violation('tftpd.concurrent/wrong-bytes',
                              f'transfer {from_tid} for client {cid} ({c.filename}) sent block {k} with foreign/incorrect bytes',
                              dict(events=[list(e) for e in S.events[-60:]], block=k, B=B, file=c.filename))
        S = run_network(rng, files, clients, 400, profile, check)
        try:
            ctx.case(repr(S.events), nontrivial=(len(S.sim.subs) >= 2 or N >= 2), kind=f'N={N}')
            for c in clients:
                want = wire_content(files[c.filename], c.mode)
                if c.finished and bytes(c.buf) != want:
                    ctx.violation('tftpd.concurrent/client-got-wrong-file',
                                  f'client {c.cid} finished {c.filename} ({c.mode}) with {len(c.buf)} bytes (expected {len(want)})',
                                  dict(events=[list(e) for e in S.events], client=c.cid))
                if not c.finished and bytes(c.buf) != want[:len(c.buf)]:
                    ctx.violation('tftpd.concurrent/client-prefix', f'client {c.cid} holds bytes that are not a prefix of its file',
                                  dict(events=[list(e) for e in S.events], client=c.cid))
                if c.finished:
                    ctx.stat('client-finished')
            # listening port still answers while the others are wherever they are
            out = S.packet(0, 99, b'\0\1f0\0octet\0', S.events[-1][-1] + 5 if S.events and S.events[-1][0] != 'r' else 10 ** 12)
            if len(out) != 1 or out[0][1][:4] != b'\0\3\0\1' or out[0][1][4:] != files['f0'][:512]:
                ctx.violation('tftpd.concurrent/listener-dead', f'fresh request while {len(S.sim.subs)} transfers are live got {out}',
                              dict(events=[list(e) for e in S.events[-20:]]))
            if all(c.mode == 'octet' for c in clients):
                S.compare(ctx, R, 'tftpd.concurrent')      # the session model serves octet sources (netascii streams: C16)
            else:
                ctx.stat('sessions-with-netascii-oracle-only')
            if i == 0:
                ctx.sample(dict(N=N, stalled=list(stalled), n_events=len(S.events)))
        finally:
            S.close()

    # ---- overlapping transfers for different boards (shared image / different partitions, other image) ---------
    boards_overlap(ctx)
    # ---- the same client port asks twice (a duplicated request): two transfers, each on its own server port; the one
    #      the client keeps to must still complete (real threads and sockets)
    from props import c01
    c01.real_retransmitted_request(ctx)

    # ---- every transfer on its OWN server port: many live sub-servers, real sockets ------------
    own_ports(ctx)

    # the lock these guarantees rest on: the scheduler-shim exploration of C13 (real RWLock vs the Coq model, stuck-state
    # search of the model replayed on the implementation), reduced
    from props import c13 as _c13
    ctx.lock_runs = 2500 if ctx.thorough else 400
    _c13.run(ctx, build)
    if ctx.violations:
        return
    # ---- two transfer threads each handling a packet at the same time (two handler objects alive at once, every
    #      interleaving of their setup / handle / finish phases): each client gets the next block of ITS file
    from tftpdrv import Sim
    fa, fb = bytes(range(256)) * 5, bytes(reversed(range(256))) * 5
    for order in ('shSHFf', 'sShHfF', 'sShHFf', 'SshHfF', 'SsHhFf', 'sSHhfF', 'shSHfF', 'SHshFf', 'sShfHF'):
        sim = Sim({'a.bin': fa, 'b.bin': fb})
        try:
            s1, _ = sim.packet(0, 1, b'\0\1a.bin\0octet\0', 1000)
            s2, _ = sim.packet(0, 2, b'\0\1b.bin\0octet\0', 1001)
            if len(s1) != 1 or len(s2) != 1:
                break
            t1, t2 = s1[0][0], s2[0][0]
            out = sim.overlapped((t1, 1, b'\0\4\0\1'), (t2, 2, b'\0\4\0\1'), order, 1002)
            ctx.case(('overlapped-handlers', order), True, 'overlapped-handlers')
            got1 = [b for t, b, a in out if t == t1]
            got2 = [b for t, b, a in out if t == t2]
            if got1 != [b'\0\3\0\2' + fa[512:1024]] or got2 != [b'\0\3\0\2' + fb[512:1024]]:
                ctx.violation('tftpd.concurrent/handlers-share-state', f'two transfer threads handling an ACK each at the same time (phases {order}): client 1 was sent '
                              f'{[x[:8].hex() for x in got1]}, client 2 {[x[:8].hex() for x in got2]}; expected DATA block 2 of a.bin / b.bin', dict(order=order))
                break
        finally:
            sim.restore()

    # ---- real threads, real UDP ---------------------------------------------------------------
    runs = 8 if ctx.thorough else 1
    for r in range(runs):
        n = 10 if ctx.thorough else 6
        res = realserver.run_script(REAL % dict(seed=ctx.seed * 100 + r, n=n))
        ctx.case(('real', r, n), True, 'real-udp')
        if res.get('crash'):
            ctx.violation('tftpd.real/harness-crash', f'real-UDP scenario crashed: {res.get("stderr", "")[-300:]}', res)
            continue
        for c in res['clients']:
            if c['role'] in ('run', 'stall') and not (c['finished'] and c['ok']):
                ctx.violation('tftpd.real/client-incomplete',
                              f'real server: client {c["i"]} ({c["role"]}) got {c["got"]}/{c["want"]} bytes, finished={c["finished"]}',
                              dict(result=res))
            if c['got'] and not c['ok'] and c['finished']:
                ctx.violation('tftpd.real/client-wrong-bytes', f'real server: client {c["i"]} received wrong bytes', dict(result=res))
        if not res.get('fresh_ok') or res.get('fresh_latency_ms', 1e9) > 3000:
            ctx.violation('tftpd.real/listener-latency',
                          f'fresh request while others stall: ok={res.get("fresh_ok")} latency={res.get("fresh_latency_ms")}ms',
                          dict(result=res))
        al = res.get('after_long_timeout', {})
        if not al.get('ok') or al.get('latency_ms', 1e9) > 3000:
            ctx.violation('tftpd.real/listener-latency', f'after a transfer that negotiated timeout=200 ended, the next request was served '
                          f'ok={al.get("ok")} after {al.get("latency_ms")} ms', dict(result=res))
        ctx.extra.setdefault('real_runs', []).append({k: v for k, v in res.items() if k != 'clients'})


def replay(ctx, obj):
    print(json.dumps(obj, indent=1)[:4000])
    return False
