"""C08 -- Option negotiation acknowledges only what was asked, with values it uses."""
import itertools, json, struct
import lib
from tftpdrv import Session, addr_of

SPEC = {
    'rule': 'RRQs over every subset and order of blksize/tsize/timeout/utimeout plus unknown names, letter cases, '
            'values across and beyond the legal ranges (0,7,8,512,1468,65464,65465,2**32, negative, fractional, '
            'non-numeric, empty, inf, nan, 1_0, padded), files around block multiples, both modes; first reply, all '
            'DATA sizes and virtual-clock retransmission instants compared with the extracted model; oracle: the '
            'statement of C08 evaluated on the implementation output. Non-trivial = request carries >= 1 option; '
            'distinct = distinct (options, mode, file length).',
    'trusted_base': [
        'Coq 8.16.1 kernel; theorems closed under the global context',
        'translator gen_tftp.py: option names, limits, TFTP_OPTIONS, defaults, tick comparisons, canonical hash of negotiate',
        'float(str): not modelled; the model takes int(float(v)*1e9) as an oracle input (theorems quantify over it)',
        'extraction + runner; harness virtual clock / fake sockets',
    ],
    'theorems': {},
    'assumptions': ['"numeric" means accepted by CPython int() (blksize, utimeout) or int()/float() (timeout)'],
}

SUP = ['blksize', 'tsize', 'timeout', 'utimeout']
VALUES = {
    'blksize': ['0', '7', '8', '9', '512', '1468', '65464', '65465', str(2 ** 32), '-8', '8.5', 'abc', '', ' 16 ', '1_6', '+32', '0x10', '1e3'],
    'tsize': ['0', '12345', 'abc', ''],
    'timeout': ['0', '1', '2', '255', '256', '0.5', '0.009', '0.01', '255.5', '-1', 'abc', '', 'inf', 'nan', '1e2', '1e3', ' 3 ', '1_0'],
    'utimeout': ['0', '9999', '10000', '500000', '255000000', '255000001', str(2 ** 32), '-5', '1.5', 'abc', '', '1e4'],
}


def expected(opts, mode, size):
    """What C08 says must happen.  opts: list of (name, value) as sent (any case).
    Returns ('refuse',) or ('accept', ordered acked dict, block size, timeout_ns)."""
    d = {}
    for k, v in opts:
        d[k.lower()] = v.lower()
    asked = [k for k in d if k in SUP]
    B, tmo = 512, 1_000_000_000
    acked = {}
    for k in asked:
        if k == 'blksize':
            try:
                v = int(d[k])
            except ValueError:
                return ('refuse',)
            v = min(65464, v)
            if v < 8:
                return ('refuse',)
            B = v
            acked[k] = str(v)
        elif k == 'tsize':
            if mode == 'octet':
                acked[k] = str(size)
        elif k == 'timeout':
            acked[k] = d[k]
        elif k == 'utimeout':
            acked[k] = d[k]
    if 'timeout' in asked:
        try:
            tmo = int(d['timeout']) * 1_000_000_000
        except ValueError:
            try:
                tmo = int(float(d['timeout']) * 1_000_000_000)
            except (ValueError, OverflowError):
                return ('refuse',)
    if 'utimeout' in asked:
        try:
            tmo = int(d['utimeout']) * 1000
        except ValueError:
            return ('refuse',)
        acked.pop('timeout', None)
    if not 10_000_000 <= tmo <= 255_000_000_000:
        return ('refuse',)
    return ('accept', acked, B, tmo)


def rrq_bytes(name, mode, opts):
    b = b'\0\1' + name.encode() + b'\0' + mode.encode() + b'\0'
    for k, v in opts:
        b += k.encode() + b'\0' + v.encode() + b'\0'
    return b


def spec_netascii(b):
    out = bytearray()
    for c in b:
        out += b'\r\n' if c == 10 else b'\r\0' if c == 13 else bytes([c])
    return bytes(out)


def one_case(ctx, R, opts, mode, content, kind):
    files = {'f': content}
    S = Session(files)
    try:
        now = 1000
        sent = S.packet(0, 1, rrq_bytes('f', mode, opts), now)
        exp = expected(opts, mode, len(content))
        wire = spec_netascii(content) if mode == 'netascii' else content
        ctx.case((tuple(opts), mode, len(content)), bool(opts), kind)
        what = None
        if exp[0] == 'refuse':
            if S.sim.subs or len(sent) != 1 or sent[0][1][:2] != b'\0\5':
                what = f'out-of-range / non-numeric option value must be refused with an ERROR and start no transfer; got {sent} subs={list(S.sim.subs)}'
        else:
            _, acked, B, tmo = exp
            if len(sent) != 1 or not S.sim.subs:
                what = f'valid request not started: {sent}'
            else:
                tid, first, to = sent[0]
                st = S.sim.subs[tid].client_state
                if acked:
                    parts = first[2:].split(b'\0')
                    got = list(zip((p.decode() for p in parts[0:-1:2]), (p.decode() for p in parts[1:-1:2])))
                    if first[:2] != b'\0\6' or got != list(acked.items()):
                        what = f'OACK should acknowledge {list(acked.items())}, got {first[:60]!r}'
                else:
                    if first[:2] != b'\0\3' or first[2:4] != b'\0\1' or first[4:] != wire[:512]:
                        what = f'request without (surviving) options must be answered by DATA 1 with {min(512, len(wire))} bytes, got {first[:40]!r}'
                if what is None and (st.block_size != B or st.timeout != tmo):
                    what = f'server uses block size {st.block_size} / timeout {st.timeout}ns, acknowledged {B} / {tmo}ns'
                if what is None:
                    # run the transfer loss-free and look at every DATA size; then stall to time a retransmission
                    got = b''
                    blk = 0 if acked else 1
                    cur = first
                    if not acked:
                        got += first[4:]
                    n = 0
                    stalled = False
                    while n < 400:
                        n += 1
                        now += 1000
                        last_short = (cur[:2] == b'\0\3' and len(cur) - 4 < B)
                        if (not stalled) and n == 2 and cur[:2] == b'\0\3' and not last_short:
                            # stall: nothing may be re-sent until more than `timeout` after the last send
                            stalled = True
                            t_send = st.last_send
                            r1 = S.tick(tid, t_send + tmo)
                            r2 = S.tick(tid, t_send + tmo + 1)
                            if r1 or [x[1] for x in r2] != [cur]:
                                what = f'retransmission interval differs from the negotiated timeout {tmo}ns: at +timeout sent {r1}, at +timeout+1ns sent {r2}'
                                break
                            # ... and then once per interval, not more often
                            t2 = t_send + tmo + 1
                            r3 = S.tick(tid, t2 + tmo)
                            r4 = S.tick(tid, t2 + tmo + 1)
                            if r3 or [x[1] for x in r4] != [cur]:
                                what = f'second retransmission not one timeout ({tmo}ns) after the first: at +timeout sent {len(r3)} datagrams, at +timeout+1ns sent {len(r4)}'
                                break
                            now = t2 + tmo + 2
                        out = S.packet(tid, 1, struct.pack('!HH', 4, blk), now)
                        if last_short:
                            break
                        if len(out) != 1 or out[0][1][:2] != b'\0\3':
                            what = f'transfer broke at block {blk}: {out}'
                            break
                        cur = out[0][1]
                        blk = cur[2] * 256 + cur[3]
                        got += cur[4:]
                        if len(cur) - 4 > B:
                            what = f'DATA payload {len(cur) - 4} exceeds acknowledged blksize {B}'
                            break
                    if what is None and got != wire:
                        what = f'transfer delivered {len(got)} bytes, expected {len(wire)}'
                    if what is None and 'tsize' in acked and int(acked['tsize']) != len(got):
                        what = f'tsize acknowledged {acked["tsize"]} but {len(got)} bytes sent'
        if what:
            ctx.violation('tftpd.negotiate/statement', what,
                          dict(options=[list(o) for o in opts], mode=mode, file=content, events=[list(e) for e in S.events[:6]]))
        S.compare(ctx, R, 'tftpd.negotiate')
    finally:
        S.close()


def run(ctx, build):
    R = ctx.try_runner('Tftp')
    rng = ctx.rng
    # systematic: every subset and order of the four options with in-range values
    good = {'blksize': '16', 'tsize': '0', 'timeout': '3', 'utimeout': '20000'}
    content = bytes(range(40)) + b'\n\r tail'
    for r in range(0, 5):
        for sub in itertools.permutations(SUP, r):
            for mode in ('octet', 'netascii'):
                one_case(ctx, R, [(k, good[k]) for k in sub], mode, content, 'subset-order')
    # every listed value of every option, alone
    for k in SUP:
        for v in VALUES[k]:
            one_case(ctx, R, [(k, v)], 'octet', content, 'value-' + k)
    ctx.sample(dict(options=[['blksize', '65465'], ['Tsize', '0'], ['junk', 'x']], mode='octet'))
    # random mixtures
    n = 60000 if ctx.thorough else 350
    if ctx.widen:
        n *= 2
    for i in range(n):
        opts = []
        for _ in range(rng.choice([0, 1, 1, 2, 3, 4, 5])):
            k = rng.choice(SUP + SUP + ['junk', 'windowsize', 'x'])
            v = rng.choice(VALUES.get(k, ['1', 'abc', '']))
            if rng.random() < 0.3:
                k = ''.join(c.upper() if rng.random() < 0.5 else c for c in k)
            if rng.random() < 0.1:
                v = v.upper()
            opts.append((k, v))
        mode = rng.choice(['octet', 'octet', 'netascii', 'OCTET'])
        B = 512
        for k, v in opts:
            if k.lower() == 'blksize':
                try:
                    B = max(8, min(65464, int(v)))
                except ValueError:
                    pass
        if B > 2000:
            ln = rng.choice([0, 1, B - 1, B, B + 1])
        else:
            ln = max(0, rng.choice([0, 1, 2, 3]) * B + rng.choice([-1, 0, 1]))
        content = bytes(rng.choice([10, 13, 65, 66, 32, 0]) for _ in range(ln))
        one_case(ctx, R, opts, mode.lower() if mode != 'OCTET' else 'octet', content, 'random')


def replay(ctx, obj):
    print(json.dumps(obj, indent=1)[:4000])
    return False
