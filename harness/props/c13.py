"""C13 -- the readers-writer lock is exclusive, re-entrant and never deadlocks.

Correspondence: nobodd.locks.threading is replaced by a shim whose Lock hands
control to a deterministic scheduler (real threads, exactly one runnable between
primitive-lock operations).  Programs x schedules are run on the real RWLock and
on the extracted model; the event traces are compared step by step.  The oracle
evaluates the property directly on the implementation runs."""
import threading, json, itertools
import lib

SPEC = {
    'rule': 'random well-nested programs (2-3 threads, nesting <= 3, blocking / non-blocking / timed acquires '
            'of both sides) x random schedules (thread id + keep-waiting flag per step, bursty) run on the real '
            'nobodd.locks.RWLock under a deterministic scheduler that owns every primitive lock operation, each '
            'drained round-robin to completion; the same program+schedule is run on the extracted model and the '
            'traces compared event by event.  A case is non-trivial when at least two threads took part and some '
            'acquire was contended (blocked or failed); distinct = distinct (programs, schedule).',
    'trusted_base': [
        'Coq 8.16.1 kernel; vm_compute used only in the non-vacuity Example',
        'translator harness/gen_locks.py: per-method canonical skeleton digests of locks.py, LightSwitch '
        'first/last comparisons, counter reset value, shape of the downgrade path',
        'extraction: ExtrOcamlBasic only; runner/driver.ml; OCaml 4.13.1',
        'modelled not verified: threading.Lock itself (mutual exclusion, wake-up of a blocked acquire when the '
        'lock is released), threading.local, fairness of the OS scheduler (a thread that can move is eventually '
        'run; a timed wait eventually times out), time.monotonic / remaining() (only the sign of the timeout matters)',
        'the scheduling shim (harness/props/c13.py) that stands in for threading.Lock during correspondence runs',
    ],
    'theorems': {
        'C13_model_matches_source': 'facts regenerated from source (digest of every method of locks.py)',
        'C13_exclusion': 'full, unbounded (any number of threads, any well-nested programs, all interleavings)',
        'C13_counter_consistent': 'full, unbounded',
        'C13_failed_attempt_noop': 'full, unbounded: caller state unchanged under any interleaving; global lock '
                                   'state unchanged when the other threads are where they were (a failed upgrade '
                                   're-enters the read side, so "unchanged" is stated at call/return granularity)',
        'C13_quiescent_free': 'full, unbounded',
        'C13_no_crash': 'full, unbounded (no assertion / RuntimeError in well-nested use)',
        'C13_no_deadlock': 'full, unbounded (not only the 2-3 thread bound of the property)',
        'C13_progress': 'full: every transition decreases a measure, so with no_deadlock every thread finishes '
                        'under a fair scheduler; fairness itself is assumed',
    },
    'assumptions': ['programs are well nested; after a failed acquire the caller skips the guarded block and '
                    'its release', 'OS scheduler fairness and threading.Lock semantics are assumed, not proved'],
}

LOCKNAMES = ['block_writers', 'block_readers', 'switch_mutex']
MODES = 'BNT'
# op codes shared with Locks/Run.v: 0-2 AcqR B/N/T, 3-5 AcqW B/N/T, 6 RelR, 7 RelW
OPNAMES = ['read.acquire()', 'read.acquire(blocking=False)', 'read.acquire(timeout=0.05)',
           'write.acquire()', 'write.acquire(blocking=False)', 'write.acquire(timeout=0.05)',
           'read.release()', 'write.release()']


class Abort(BaseException):
    pass


class Sched:
    """one run: n worker threads, exactly one runs between two sync points"""
    def __init__(self, n):
        self.n = n
        self.go = [threading.Semaphore(0) for _ in range(n)]
        self.done = [threading.Semaphore(0) for _ in range(n)]
        self.fresh = [True] * n
        self.ev = [[] for _ in range(n)]
        self.post = [(0, 0, 0)] * n
        self.at = ['call'] * n          # where the worker is parked: call | prim | end
        self.finished = [False] * n
        self.crashed = [None] * n
        self.wflag = False
        self.abort = False
        self.ident = {}
        self.locks = []
        self.state_of = None

    def me(self):
        return self.ident[threading.get_ident()]

    def sync(self, i, at):
        if self.fresh[i]:
            self.fresh[i] = False
        else:
            self.post[i] = self.state_of()
            self.at[i] = at
            self.done[i].release()
        self.go[i].acquire()
        if self.abort:
            raise Abort()

    def grant(self, i, w, timeout=5.0):
        """let thread i run up to its next sync point; returns its events or None on a hang"""
        self.wflag = w
        self.ev[i] = []
        self.go[i].release()
        if not self.done[i].acquire(timeout=timeout):
            return None
        return self.ev[i]

    def kill(self):
        self.abort = True
        for s in self.go:
            s.release()


class ShimLock:
    def __init__(self, sched):
        self.s = sched
        self.idx = len(sched.locks)
        sched.locks.append(self)
        self.held = False

    def acquire(self, blocking=True, timeout=-1):
        if not blocking and timeout != -1:
            raise ValueError("can't specify a timeout for a non-blocking call")
        if blocking and timeout != -1 and timeout < 0:
            raise ValueError('timeout value must be a non-negative number')
        mode = 1 if not blocking else (0 if timeout == -1 else 2)
        i = self.s.me()
        while True:
            self.s.sync(i, 'prim')
            if not self.held:
                self.held = True
                self.s.ev[i].append(('acq', self.idx, mode))
                return True
            if mode == 0 or (mode == 2 and self.s.wflag):
                self.s.ev[i].append(('blocked', self.idx, mode))
                continue
            self.s.ev[i].append(('fail', self.idx, mode))
            return False

    def release(self):
        i = self.s.me()
        self.s.sync(i, 'prim')
        if not self.held:
            raise RuntimeError('release unlocked lock')
        self.held = False
        self.s.ev[i].append(('rel', self.idx, 0))

    def locked(self):
        return self.held

    def __enter__(self):
        self.acquire()
        return self

    def __exit__(self, *a):
        self.release()


def skip_block(prog, pc):
    d = 0
    while pc < len(prog):
        op = prog[pc]; pc += 1
        if op < 6:
            d += 1
        elif d == 0:
            return pc
        else:
            d -= 1
    return pc


class Attach(Exception):
    """the harness cannot attach to nobodd.locks as it is now"""


class ImplRun:
    """one RWLock of the implementation driven step by step"""
    def __init__(self, progs):
        import types
        import nobodd.locks as L
        self.progs = progs
        self.s = s = Sched(len(progs))
        shim = types.SimpleNamespace(Lock=lambda: ShimLock(s), local=threading.local)
        old = L.threading
        L.threading = shim
        try:
            self.rw = rw = L.RWLock()
        finally:
            L.threading = old
        try:
            ok = (len(s.locks) == 3 and rw.write._block_writers is s.locks[0]
                  and rw.write._block_readers is s.locks[1]
                  and rw.read._read_switch._mutex is s.locks[2]
                  and rw.read._block_readers is s.locks[1]
                  and rw.write._read_switch is rw.read._read_switch
                  and rw.read._read_switch._lock is s.locks[0])
        except AttributeError as e:
            raise Attach(f'RWLock layout changed: {e}')
        if not ok:
            raise Attach('RWLock does not create block_writers, block_readers, switch mutex in that order')
        local = rw.read._local

        def state_of():
            st = getattr(local, 'state', None)
            return (st.read, st.write, st.ignored) if st is not None else (0, 0, 0)
        s.state_of = state_of
        self.threads = []
        for i, prog in enumerate(progs):
            if not prog:
                s.finished[i] = True; s.at[i] = 'end'
                continue
            t = threading.Thread(target=self.worker, args=(i, prog), daemon=True)
            self.threads.append(t)
            t.start()

    def call(self, op):
        rw = self.rw
        if op < 6:
            side = rw.read if op < 3 else rw.write
            m = op % 3
            if m == 0:
                return side.acquire()
            if m == 1:
                return side.acquire(blocking=False)
            return side.acquire(timeout=0.05)
        return (rw.read if op == 6 else rw.write).release()

    def worker(self, i, prog):
        s = self.s
        s.ident[threading.get_ident()] = i
        try:
            pc = 0
            while pc < len(prog):
                s.sync(i, 'call')
                op = prog[pc]; pc += 1
                s.ev[i].append(('call',))
                try:
                    r = self.call(op)
                except Exception as e:
                    s.ev[i].append(('crash', repr(e)))
                    s.crashed[i] = repr(e)
                    return
                s.ev[i].append(('ret', r))
                if r is False:
                    pc = skip_block(prog, pc)
        except Abort:
            return
        finally:
            if not s.abort:
                try:
                    s.post[i] = s.state_of()
                except Exception:
                    pass
                s.at[i] = 'end'
                s.finished[i] = True
                s.done[i].release()

    def snapshot(self):
        s = self.s
        return (int(s.locks[0].held), int(s.locks[1].held), int(s.locks[2].held),
                self.rw.read._read_switch._counter)

    def step(self, i, w):
        """-> event [kind, lock, mode, ret, rd, wr, ig] (as Locks/Run.v) or 'hang'"""
        s = self.s
        if i >= s.n:
            return [7]
        if s.crashed[i] is not None:
            return [5, 3, 0, 0] + list(s.post[i])
        if s.finished[i]:
            return [6, 3, 0, 0] + list(s.post[i])
        evs = s.grant(i, w)
        if evs is None:
            return 'hang'
        kind, lock, mode, ret = None, 3, 0, 0
        for e in evs:
            if e[0] == 'call':
                kind = 0
            elif e[0] in ('acq', 'fail', 'rel', 'blocked'):
                kind = {'acq': 1, 'fail': 2, 'rel': 3, 'blocked': 4}[e[0]]
                lock = e[1]; mode = e[2] if e[0] in ('acq', 'fail') else 0
            elif e[0] == 'ret':
                ret = 1 if e[1] is None else 3 if e[1] is True else 2 if e[1] is False else 9
            elif e[0] == 'crash':
                return [5, 3, 0, 0] + list(s.post[i]) + [e[1]]
        if kind is None:
            return 'hang'
        return [kind, lock, mode, ret] + list(s.post[i])

    def close(self):
        self.s.kill()


def run_impl(progs, schedule, drain=True):
    """drive the implementation; returns dict(events, schedule (with drain), problems, ...)"""
    r = ImplRun(progs)
    s = r.s
    n = len(progs)
    out = dict(progs=progs, events=[], schedule=[], problems=[], contended=False, stuck=False)
    ppc = [0] * n
    pending = [None] * n        # (state before call, snapshot before call, op) of a running acquire
    solo = [False] * n

    def problem(sig, what):
        out['problems'].append((sig, what))

    def one(i, w):
        before_state = s.post[i] if i < n else None
        before_snap = r.snapshot()
        e = r.step(i, w)
        out['schedule'].append([i, int(bool(w))])
        out['events'].append(e)
        if e == 'hang':
            problem('hang', f'thread {i} did not come back to the scheduler: it blocked outside the primitive locks')
            return e
        k = e[0]
        if k in (6, 7):
            return e
        if k == 5:
            problem('crash', f'thread {i} raised {e[7] if len(e) > 7 else s.crashed[i]} in a well-nested program')
            return e
        for j in range(n):
            if j != i:
                solo[j] = False
        if k in (2, 4):
            out['contended'] = True
        if k == 0:
            op = progs[i][ppc[i]]; ppc[i] += 1
            if op < 6 and e[3] == 0:
                pending[i] = (before_state, before_snap, op)
                solo[i] = True
        if e[3] == 2:                                   # returned False
            ppc[i] = skip_block(progs[i], ppc[i])
            if pending[i] is None:
                problem('false-from-nowhere', f'thread {i}: False returned outside an acquire call')
            else:
                st0, snap0, op = pending[i]
                if tuple(e[4:7]) != tuple(st0):
                    problem('failed-attempt-changed-state',
                            f'thread {i}: {OPNAMES[op]} returned False but its RWLockState went {st0} -> {tuple(e[4:7])}')
                elif solo[i] and r.snapshot() != snap0:
                    problem('failed-attempt-changed-lock',
                            f'thread {i}: {OPNAMES[op]} returned False (no other thread ran meanwhile) but '
                            f'(block_writers, block_readers, mutex, counter) went {snap0} -> {r.snapshot()}')
        if e[3] != 0:
            pending[i] = None
        # exclusion, evaluated on the RWLockState of every thread
        for a in range(n):
            if s.post[a][1] > 0:
                for b in range(n):
                    if b == a:
                        continue
                    rb, wb, _ = s.post[b]
                    if wb > 0:
                        problem('exclusion-write-write', f'threads {a} and {b} both hold the write side')
                    elif rb > 0 and s.at[b] in ('call', 'end'):
                        problem('exclusion-write-read',
                                f'thread {a} holds the write side while thread {b} holds the read side')
        return e

    try:
        for i, w in schedule:
            if one(i, w) == 'hang' or len(out['problems']) > 3:
                break
        live = lambda: [i for i in range(n) if not s.finished[i] and s.crashed[i] is None]
        if drain and not any(p[0] == 'hang' for p in out['problems']):
            budget = 40 * sum(len(p) for p in progs) + 50
            while live() and budget > 0:
                moved = False
                for i in live():
                    e = one(i, False)
                    budget -= 1
                    if e == 'hang':
                        budget = -1; break
                    if e[0] != 4:
                        moved = True
                if budget >= 0 and not moved and live():
                    out['stuck'] = True
                    waits = {i: LOCKNAMES[out['events'][-len(live()) + k][1]] for k, i in enumerate(live())}
                    problem('deadlock', 'deadlock: ' + ', '.join(
                        f'thread {i} waits for {l}' for i, l in waits.items()) +
                        f'; (block_writers, block_readers, mutex, counter) = {r.snapshot()}')
                    break
            if budget == 0 and live():
                problem('livelock', 'threads still running after the step bound')
        out['final'] = list(r.snapshot())
        out['threads'] = [list(s.post[i]) + [int(s.finished[i] and s.crashed[i] is None)] for i in range(n)]
        if not live() and not out['problems'] and all(s.finished):
            if out['final'] != [0, 0, 0, 0]:
                problem('not-free-at-end', f'all threads finished but (block_writers, block_readers, mutex, '
                                           f'counter) = {tuple(out["final"])}')
            if any(t[:3] != [0, 0, 0] for t in out['threads']):
                problem('state-not-zero-at-end', f'all threads finished but RWLockStates are {out["threads"]}')
    finally:
        r.close()
    return out


def model_trace(R, progs, schedule):
    v = R.call('trace', (progs, schedule))
    events, glob, stuck, threads = v
    return dict(events=[list(e) for e in events], final=list(glob), stuck=bool(stuck),
                threads=[list(t) for t in threads])


def compare(impl, model):
    """first difference between the implementation run and the model run, or None"""
    for k, (a, b) in enumerate(zip(impl['events'], model['events'])):
        if a == 'hang':
            return None
        a7 = list(a[:7])
        if a7[0] == 5 or b[0] == 5:
            if a7[0] != b[0]:
                return f'step {k} (thread {impl["schedule"][k][0]}): implementation {describe(a7)}, model {describe(b)}'
            continue
        if a7 != b:
            return f'step {k} (thread {impl["schedule"][k][0]}): implementation {describe(a7)}, model {describe(b)}'
    if impl['problems']:
        return None
    if impl['final'] != model['final']:
        return f'final (block_writers, block_readers, mutex, counter): implementation {impl["final"]}, model {model["final"]}'
    if impl['threads'] != model['threads']:
        return f'final thread states: implementation {impl["threads"]}, model {model["threads"]}'
    if impl['stuck'] != model['stuck']:
        return f'stuck: implementation {impl["stuck"]}, model {model["stuck"]}'
    return None


def describe(e):
    if len(e) < 7:
        return str(e)
    kind = ['call', 'acquired', 'acquire-failed', 'released', 'blocked-on', 'crash', 'finished', 'no-thread'][e[0]]
    lock = LOCKNAMES[e[1]] if e[1] < 3 else ''
    ret = ['', ' -> None', ' -> False', ' -> True'][e[3]] if e[3] < 4 else ' -> ?'
    mode = '/' + MODES[e[2]] if e[0] in (1, 2) else ''
    return f'{kind} {lock}{mode}{ret} state={tuple(e[4:7])}'


def gen_block(rng, depth, budget, maxdepth):
    ops = []
    while budget[0] >= 2 and rng.random() < (0.8 if depth == 0 else 0.5):
        side = rng.choice((0, 3))
        mode = rng.choices((0, 1, 2), (6, 2, 2))[0]
        budget[0] -= 2
        ops.append(side + mode)
        if depth + 1 < maxdepth:
            ops += gen_block(rng, depth + 1, budget, maxdepth)
        ops.append(6 if side == 0 else 7)
    return ops


def gen_progs(rng):
    n = rng.choice((2, 2, 3))
    progs = []
    for _ in range(n):
        p = []
        while not p:
            p = gen_block(rng, 0, [rng.choice((2, 4, 6, 8))], 3)
        progs.append(p)
    return progs


def gen_schedule(rng, n, length):
    out = []
    while len(out) < length:
        i = rng.randrange(n)
        for _ in range(rng.choice((1, 1, 1, 2, 3, 5, 8, 13))):
            out.append([i, int(rng.random() < 0.12)])
    return out[:length]


CLASSIC = [
    [[0, 3, 7, 6], [0, 6]],                    # upgrade/downgrade against a reader
    [[0, 3, 7, 6], [0, 3, 7, 6]],              # two upgraders
    [[0, 3, 7, 6], [3, 7]],                    # upgrader against a writer
    [[3, 0, 6, 7], [0, 0, 6, 6]],              # read inside write, re-entrant read
    [[0, 4, 7, 6], [3, 7], [1, 6]],            # non-blocking upgrade, writer, non-blocking reader
    [[0, 5, 7, 6], [0, 3, 7, 6], [2, 6]],      # timed upgrade, upgrader, timed reader
    [[3, 3, 7, 7], [0, 3, 0, 6, 7, 6]],        # re-entrant write; read-upgrade-read
]
# the schedule of the non-vacuity Example in Props/C13.v: deadlocks the older downgrade path
LEGACY_DEADLOCK = ([[0, 3, 7, 6], [0, 6]],
                   [[i, 0] for i in [0, 0, 0, 0, 0, 0, 0, 0, 0, 0, 1, 1, 1, 0, 0, 0, 1]])


def check_case(ctx, R, progs, schedule, kind):
    impl = run_impl(progs, schedule)
    nontrivial = impl['contended'] and len({i for i, _ in impl['schedule']}) >= 2
    ctx.case((progs, impl['schedule']), nontrivial, kind)
    rep = dict(programs=[[OPNAMES[o] for o in p] for p in progs], progs=progs,
               schedule=impl['schedule'],
               trace=[describe(e) if e != 'hang' else 'hang' for e in impl['events']][:200])
    for sig, what in impl['problems']:
        ctx.violation('RWLock/' + sig, what + f'  [programs {rep["programs"]}]', dict(rep, problem=sig, what=what))
    if R is not None:
        model = model_trace(R, progs, impl['schedule'])
        diff = compare(impl, model)
        if diff is None and model['stuck'] and not impl['stuck'] and not impl['problems']:
            diff = 'the model is stuck at the end of a run the implementation finished'
        if diff:
            # a disagreement alone is not a failing input of the property: it is recorded and, if the
            # oracle finds nothing, reported as "no-failing-input-found" by run()
            mm = ctx.extra.setdefault('model_mismatches', [])
            if len(mm) < 5:
                mm.append(dict(what=diff, programs=rep['programs'], progs=progs, schedule=impl['schedule'],
                               model_trace=[describe(e) for e in model['events']][:80], impl_trace=rep['trace'][:80]))
            ctx.stat('model-mismatch')
    return impl


def plain_thread_scenarios(ctx):
    """real threads, no scheduling shim: facts that need two lock objects, or a timed attempt whose budget is spent"""
    import threading
    from nobodd.locks import RWLock
    def in_thread(fn, wait=5):
        box = []
        th = threading.Thread(target=lambda: box.append(fn()))
        th.start(); th.join(wait)
        return box[0] if box else 'STUCK'
    # 1. two independent locks: holding one says nothing about the other
    a, b = RWLock(), RWLock()
    problems = []
    try:
        _two_locks(a, b, in_thread, problems)
    except BaseException as e:      # noqa: BLE001 -- a well-nested use of two independent locks must not raise
        problems.append(f'well-nested use of two independent lock objects raised {type(e).__name__}: {e}')
    ctx.case(('two-locks',), True, 'two-locks')
    if problems:
        ctx.violation('locks.real/two-lock-objects', problems[0], dict(problems=problems))
        return
    _spent_timeouts(ctx, in_thread)


def _two_locks(a, b, in_thread, problems):
    a.write.acquire()
    b.read.acquire()                                    # this thread now holds b's read side for real
    if in_thread(lambda: b.write.acquire(blocking=False)) is not False:
        problems.append('a thread holds the read side of lock B (taken while it also held the write side of lock A); another thread obtained the write side of B')
    b.read.release()
    a.write.release()
    a.read.acquire()
    if in_thread(lambda: (b.write.acquire(blocking=False), b.write.release())[0]) is not True:
        problems.append('lock B is free but cannot be taken while another thread holds lock A')
    b.write.acquire()                                   # nested in A.read: must really take B
    if in_thread(lambda: b.read.acquire(blocking=False)) is not False:
        problems.append('a thread holds the write side of lock B (taken inside the read side of lock A); another thread obtained the read side of B')
    b.write.release()
    a.read.release()


def _spent_timeouts(ctx, in_thread):
    import threading
    from nobodd.locks import RWLock
    # 2. timed attempts whose budget is already spent: they fail, raise nothing and change nothing
    for label, timeout in (('timeout=0', 0), ('timeout=1e-9', 1e-9)):
        lock = RWLock()
        other_in, other_go = threading.Event(), threading.Event()
        def other():
            with lock.read:
                other_in.set(); other_go.wait(10)
        th = threading.Thread(target=other); th.start(); other_in.wait(5)
        outcome = None
        try:
            lock.read.acquire()
            got = lock.write.acquire(timeout=timeout)              # an upgrade that cannot succeed: another reader is inside
            outcome = ('returned', got)
            if got:
                lock.write.release()
            lock.read.release()
        except BaseException as e:      # noqa: BLE001
            outcome = ('raised', type(e).__name__, str(e)[:80])
        other_go.set(); th.join(5)
        free = in_thread(lambda: (lock.write.acquire(timeout=2) and (lock.write.release() or True)))
        ctx.case(('timed-upgrade', label), True, 'timed-upgrade-spent')
        if outcome != ('returned', False) or free is not True:
            ctx.violation('locks.real/timed-attempt-with-spent-budget', f'upgrade with {label} while another reader holds the lock: {outcome}; '
                          f'afterwards the lock can be taken for writing: {free}', dict(outcome=outcome, free=str(free)))
            return
        # the same for a plain write attempt against a writer
        lock = RWLock()
        lock.write.acquire()
        r = in_thread(lambda: _timed_write(lock, timeout))
        lock.write.release()
        free = in_thread(lambda: (lock.write.acquire(timeout=2) and (lock.write.release() or True)))
        if r != ('returned', False) or free is not True:
            ctx.violation('locks.real/timed-attempt-with-spent-budget', f'write.acquire({label}) against a writer: {r}; afterwards the lock can be taken: {free}',
                          dict(outcome=r, free=str(free)))
            return


def _timed_write(lock, timeout):
    try:
        got = lock.write.acquire(timeout=timeout)
        if got:
            lock.write.release()
        return ('returned', got)
    except BaseException as e:      # noqa: BLE001
        return ('raised', type(e).__name__, str(e)[:80])


def run(ctx, build):
    rng = ctx.rng
    infra = None
    plain_thread_scenarios(ctx)
    if ctx.violations:
        return
    try:
        R = ctx.runner('Locks')
        facts = R.call('facts', [])
        ctx.extra['model_follows_source'] = dict(downgrade_fixed=bool(facts[0]), source_shape_ok=bool(facts[1]))
    except lib.BuildError as exc:
        R, infra = None, exc
    try:
        # 1. fixed scenarios, the known deadlocking schedule, and the model's own search for a stuck state
        check_case(ctx, R, LEGACY_DEADLOCK[0], LEGACY_DEADLOCK[1], 'legacy-deadlock-schedule')
        for progs in CLASSIC:
            if R is not None:
                found = R.call('search', (progs, 26 if len(progs) == 2 else 16))
                if found:
                    check_case(ctx, R, progs, [[i, 0] for i in found[0]], 'model-counterexample')
                    ctx.stat('model-found-stuck-schedule')
            for _ in range(30 if ctx.thorough else 8):
                n = len(progs)
                check_case(ctx, R, progs, gen_schedule(rng, n, rng.choice((6, 12, 20, 30))), 'classic')
        ctx.sample(dict(programs=[[OPNAMES[o] for o in p] for p in CLASSIC[0]],
                        schedule='random bursts, then round-robin drain', compared='event trace + final state'))
        # 2. random programs x random schedules
        nruns = 70000 if ctx.thorough else 3000
        if getattr(ctx, 'lock_runs', None):
            nruns = ctx.lock_runs            # a reduced exploration run from the checks of properties that rest on the lock (C07, C14)
        if getattr(ctx, 'widen', False):
            nruns = max(nruns, 8000)
        for k in range(nruns):
            progs = gen_progs(rng)
            total = sum(len(p) for p in progs)
            sched = gen_schedule(rng, len(progs), rng.choice((0, total, 3 * total, 6 * total)))
            impl = check_case(ctx, R, progs, sched, f'random-{len(progs)}-threads')
            if k < 3:
                ctx.sample(dict(programs=[[OPNAMES[o] for o in p] for p in progs],
                                schedule=impl['schedule'][:40], steps=len(impl['events'])))
            if len(ctx.violations) >= 8 or (ctx.stats.get('model-mismatch', 0) >= 50 and k >= 3000):
                break
    except Attach as exc:
        ctx.violation('RWLock/attach', f'cannot drive nobodd.locks.RWLock: {exc}', dict(problem='attach', what=str(exc)))
    if infra is not None and not ctx.violations:
        raise infra
    mm = ctx.extra.get('model_mismatches')
    if mm and not ctx.violations:
        raise lib.BuildError('implementation and model traces disagree (no input violating the property itself '
                             'was found): ' + json.dumps(mm[0])[:3000])


def replay(ctx, obj):
    r = obj['replay']
    print(json.dumps({k: r[k] for k in ('programs', 'schedule', 'problem', 'what') if k in r}, indent=1)[:3000])
    if 'progs' not in r:
        return False
    impl = run_impl(r['progs'], [tuple(x) for x in r['schedule']], drain=True)
    for k, e in enumerate(impl['events']):
        print(f'{k:3d} thread {impl["schedule"][k][0]}: {describe(e) if e != "hang" else "hang"}')
    print('now:', impl['problems'] or 'no problem on this schedule')
    ok = not impl['problems']
    if ok and r.get('problem') in ('model-mismatch', 'model-stuck-only'):
        try:
            R = ctx.runner('Locks')
            ok = compare(impl, model_trace(R, r['progs'], impl['schedule'])) is None
        except lib.BuildError:
            ok = False
    return ok
