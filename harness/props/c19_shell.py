"""End-to-end oracle for the shell half of C19: random command sequences through
nobodd.sh.main over a host directory and a two-partition image, checked after every
command against an in-memory expected tree.  Used by props/c19.py."""
import os, sys, json, struct, hashlib, random, shutil, subprocess, tempfile, select, time
import lib

sys.path.insert(0, os.path.join(lib.VERIF, 'harness'))
import mkfat

SIZES = [0, 1, 2, 511, 512, 513, 4096, 65535, 65536, 65537, 131071, 131072, 131073]
NAMES = ['a.txt', 'b.bin', 'c', 'data.bin', 'longer-file-name.dat', 'd1', 'd2', 'sub', 'x', 'y.z',
         'readme.md', 'kernel8.img']

WORKER = r'''
import sys, os, io, json, hashlib, warnings
from nobodd import sh
from nobodd.disk import DiskImage
from nobodd.fs import FatFileSystem

def walk_dir(d, prefix, out):
    for p in d.iterdir():
        name = prefix + p.name
        if name in out:
            out[name] = ['dup']
            continue
        if p.is_dir():
            out[name] = ['d']
            walk_dir(p, name + '/', out)
        else:
            data = p.read_bytes()
            size = p.stat().st_size
            out[name] = ['f', len(data), hashlib.sha1(data).hexdigest(), size]

real_stdout = sys.stdout
for line in sys.stdin:
    req = json.loads(line)
    if req['op'] == 'sh':
        out = io.BytesIO(); err = io.StringIO()
        wrapper = io.TextIOWrapper(out, write_through=True)
        sys.stdout = wrapper; sys.stderr = err
        try:
            try:
                rc = sh.main(req['argv'])
            except SystemExit as e:
                rc = ['exit', e.code]
            except BaseException as e:
                rc = ['raised', type(e).__name__ + ': ' + str(e)[:200]]
        finally:
            try: wrapper.flush()
            except Exception: pass
            sys.stdout = real_stdout; sys.stderr = sys.__stderr__
        data = out.getvalue()
        try: wrapper.detach()
        except Exception: pass
        reply = {'rc': rc, 'out': data.hex(), 'err': err.getvalue()[-400:]}
    elif req['op'] == 'walk':
        reply = {}
        for n in req['parts']:
            try:
                with warnings.catch_warnings(record=True) as w:
                    warnings.simplefilter('always')
                    with DiskImage(req['image']) as img:
                        with FatFileSystem(img.partitions[n].data) as fs:
                            tree = {}
                            walk_dir(fs.root, '', tree)
                            reply[str(n)] = {'tree': tree, 'fat_type': fs.fat_type,
                                             'warnings': sorted({x.category.__name__ for x in w})}
            except BaseException as e:
                reply[str(n)] = {'error': type(e).__name__ + ': ' + str(e)[:200]}
    else:
        reply = {'error': 'bad op'}
    real_stdout.write(json.dumps(reply) + '\n'); real_stdout.flush()
'''


STATS = {}


def _stat(k):
    STATS[k] = STATS.get(k, 0) + 1


class Hang(Exception):
    pass


class Worker:
    def __init__(self):
        self.p = None

    def start(self):
        self.p = subprocess.Popen([lib.PY, '-c', WORKER], env=lib.repo_env(), stdin=subprocess.PIPE,
                                  stdout=subprocess.PIPE, stderr=subprocess.DEVNULL, text=True, bufsize=1)

    def call(self, req, timeout=30):
        if self.p is None or self.p.poll() is not None:
            self.start()
        self.p.stdin.write(json.dumps(req) + '\n')
        self.p.stdin.flush()
        r, _, _ = select.select([self.p.stdout], [], [], timeout)
        if not r:
            self.kill()
            raise Hang()
        line = self.p.stdout.readline()
        if not line:
            self.kill()
            return {'rc': ['died', None], 'out': '', 'err': 'worker process died'}
        return json.loads(line)

    def kill(self):
        if self.p:
            self.p.kill(); self.p.wait()
            self.p = None

    def close(self):
        if self.p:
            try:
                self.p.stdin.close(); self.p.wait(timeout=5)
            except Exception:
                self.p.kill()
            self.p = None


# ----------------------------------------------------------------------------- images
PTYPE = {'fat12': 0x01, 'fat16': 0x06, 'fat32': 0x0C}
FIRST = 8


def build_image(path, vols):
    """vols: list of (fat_type, n_clusters, spc); MBR + the volumes back to back from sector FIRST"""
    body = bytearray()
    ents, layout = [], []
    for ftype, ncl, spc in vols:
        vol = mkfat.mkfat(ftype, ncl, spc=spc)
        start = FIRST + len(body) // 512
        ents.append(struct.pack('<B3sB3sII', 0, b'\0\0\0', PTYPE[ftype], b'\0\0\0', start, len(vol) // 512))
        layout.append((start * 512, len(vol)))
        body += vol
    mbr = bytearray(512)
    for i, e in enumerate(ents):
        mbr[446 + 16 * i:462 + 16 * i] = e
    mbr[510:512] = b'\x55\xaa'
    with open(path, 'wb') as f:
        f.write(bytes(mbr) + bytes(512 * (FIRST - 1)) + bytes(body))
    return layout


# ----------------------------------------------------------------------------- expected trees
def lookup(tree, comps):
    node = tree
    for c in comps:
        if not isinstance(node, dict) or c not in node:
            return None
        node = node[c]
    return node


def deep(node):
    return {k: deep(v) for k, v in node.items()} if isinstance(node, dict) else node


def flat(tree, prefix=''):
    out = {}
    for k, v in tree.items():
        if isinstance(v, dict):
            out[prefix + k] = ['d']
            out.update(flat(v, prefix + k + '/'))
        else:
            out[prefix + k] = ['f', len(v), hashlib.sha1(v).hexdigest()]
    return out


class Fail(Exception):
    """the command is expected to fail at this point (effects so far stay)"""


class Expect:
    """POSIX-like semantics of the sh.py commands over {'h': tree, 1: tree, 2: tree}"""
    def __init__(self, state):
        self.s = state

    def node(self, p):
        return lookup(self.s[p[0]], p[1])

    def parent(self, p):
        if not p[1]:
            return None
        return lookup(self.s[p[0]], p[1][:-1])

    def set(self, p, value):
        par = self.parent(p)
        if not isinstance(par, dict):
            raise Fail('parent missing')
        par[p[1][-1]] = value

    def delete(self, p):
        del self.parent(p)[p[1][-1]]

    # -- commands: return captured stdout (bytes) for cat, else None
    def touch(self, paths):
        for p in paths:
            n = self.node(p)
            if n is None:
                self.set(p, b'')
            elif isinstance(n, dict) and p[0] != 'h':
                # FatPath.touch() opens the path for appending: a directory is refused (IsADirectoryError), where
                # pathlib.Path.touch() on the host accepts it; the property says nothing about touching directories
                raise Fail('is a directory')

    def mkdir(self, parents, paths):
        for p in paths:
            if parents:
                for i in range(1, len(p[1]) + 1):
                    q = (p[0], p[1][:i])
                    n = self.node(q)
                    if n is None:
                        self.set(q, {})
                    elif not isinstance(n, dict) and i < len(p[1]):
                        raise Fail('component is a file')
            else:
                if self.node(p) is not None:
                    raise Fail('exists')
                self.set(p, {})

    def rmdir(self, paths):
        for p in paths:
            n = self.node(p)
            if not isinstance(n, dict) or n or not p[1]:
                raise Fail('not an empty directory')
            self.delete(p)

    def rm(self, recursive, force, paths):
        for p in paths:
            n = self.node(p)
            if n is None:
                through_file = any(isinstance(lookup(self.s[p[0]], p[1][:i]), bytes) for i in range(1, len(p[1])))
                if not force or through_file:      # ENOTDIR is not forgiven by -f (only ENOENT is)
                    raise Fail('missing')
            elif isinstance(n, dict):
                if not recursive or not p[1]:
                    raise Fail('is a directory')
                self.delete(p)
            else:
                self.delete(p)

    def _copy(self, src, dst, recursive):
        n = self.node(src)
        if n is None:
            raise Fail('source missing')
        if isinstance(n, dict):
            t = self.node(dst)
            if recursive:
                if t is None:
                    self.set(dst, {})
                elif not isinstance(t, dict):
                    raise Fail('target is a file')
                for k in list(n):
                    self._copy((src[0], src[1] + (k,)), (dst[0], dst[1] + (k,)), recursive)
            elif n:
                raise Fail('-r not specified')
            else:
                if t is not None:
                    raise Fail('exists')
                self.set(dst, {})
        else:
            if isinstance(self.node(dst), dict):
                raise Fail('target is a directory')
            if src == dst:
                raise Fail('source and target are the same file')
            self.set(dst, n)

    def cp(self, recursive, srcs, dest):
        d = self.node(dest)
        if isinstance(d, dict):
            for s in srcs:
                if self.node(s) is None:
                    raise Fail('source missing')
                self._copy(s, (dest[0], dest[1] + (s[1][-1],)), recursive)
        elif len(srcs) > 1:
            raise Fail('not a directory')
        else:
            self._copy(srcs[0], dest, recursive)

    def _move(self, src, dst, same):
        n = self.node(src)
        if n is None:
            raise Fail('source missing')
        t = self.node(dst)
        if src == dst:
            return                      # moving something onto itself changes nothing
        if same:
            if isinstance(t, dict) or (isinstance(n, dict) and t is not None):
                raise Fail('target exists')
            self.set(dst, n)
            self.delete(src)
        elif isinstance(n, dict):
            if t is None:
                self.set(dst, {})
            elif not isinstance(t, dict):
                raise Fail('target is a file')
            for k in list(n):
                self._move((src[0], src[1] + (k,)), (dst[0], dst[1] + (k,)), same)
            self.delete(src)
        else:
            if isinstance(t, dict):
                raise Fail('target is a directory')
            self.set(dst, n)
            self.delete(src)

    def mv(self, srcs, dest, same_of):
        d = self.node(dest)
        if isinstance(d, dict):
            for s in srcs:
                self._move(s, (dest[0], dest[1] + (s[1][-1],)), same_of(s, dest))
        elif len(srcs) > 1:
            raise Fail('not a directory')
        else:
            self._move(srcs[0], dest, same_of(srcs[0], dest))

    def cat(self, srcs, out):
        buf = b''
        if out is not None:
            if isinstance(self.node(out), dict):
                raise Fail('output is a directory')
            self.set(out, b'')
        try:
            for s in srcs:
                n = self.node(s)
                if n is None or isinstance(n, dict):
                    raise Fail('input missing or a directory')
                buf += n
        finally:
            if out is not None:
                self.set(out, buf)
        return buf if out is None else None


# ----------------------------------------------------------------------------- one sequence
class Seq:
    """abstract commands; P = [fs, comps, style] with fs 'h' | 1 | 2 and style 'n' (img:N/) | 'a' (img:/)"""
    def __init__(self, vols, cmds):
        self.vols, self.cmds = vols, cmds

    def to_json(self):
        return {'vols': self.vols, 'cmds': self.cmds}


def content_of(size, seed):
    return random.Random(seed).randbytes(size)


def render(T, p):
    fs, comps, style = p[0], tuple(p[1]), p[2] if len(p) > 2 else 'n'
    if fs == 'h':
        return os.path.join(T, 'host', *comps)
    img = os.path.join(T, 'disk.img')
    if style == 'a' and fs == 1:
        return img + ':/' + '/'.join(comps)
    return f'{img}:{fs}/' + '/'.join(comps)


def key(p):
    return (p[0], tuple(p[1]))


def same_fs(a, b):
    """same_fs of sh.py: both host, or the same FatFileSystem instance, i.e. same (image, partition spelling)"""
    if a[0] == 'h' or b[0] == 'h':
        return a[0] == b[0]
    sa = a[2] if len(a) > 2 and a[0] == 1 else 'n'
    sb = b[2] if len(b) > 2 and b[0] == 1 else 'n'
    return a[0] == b[0] and sa == sb


def argv_of(T, c):
    op = c['op']
    R = lambda p: render(T, p)
    if op == 'touch':
        return ['touch'] + [R(p) for p in c['paths']]
    if op == 'mkdir':
        return ['mkdir'] + (['-p'] if c.get('parents') else []) + [R(p) for p in c['paths']]
    if op == 'rmdir':
        return ['rmdir'] + [R(p) for p in c['paths']]
    if op == 'rm':
        return ['rm'] + (['-r'] if c.get('r') else []) + (['-f'] if c.get('f') else []) + [R(p) for p in c['paths']]
    if op == 'cp':
        return ['cp'] + (['-r'] if c.get('r') else []) + [R(p) for p in c['srcs']] + [R(c['dest'])]
    if op == 'mv':
        return ['mv'] + [R(p) for p in c['srcs']] + [R(c['dest'])]
    if op == 'cat':
        return ['cat'] + [R(p) for p in c['srcs']] + (['-o', R(c['out'])] if c.get('out') else [])
    raise ValueError(op)


def apply_expected(state, c):
    """-> (ok, stdout or None); mutates state (partial effects stay on failure)"""
    e = Expect(state)
    op = c['op']
    K = lambda p: key(p)
    try:
        if op == 'put':
            e.set(K(c['path']), content_of(c['size'], c['seed']))
            return True, None
        if op == 'touch':
            e.touch([K(p) for p in c['paths']])
        elif op == 'mkdir':
            e.mkdir(c.get('parents'), [K(p) for p in c['paths']])
        elif op == 'rmdir':
            e.rmdir([K(p) for p in c['paths']])
        elif op == 'rm':
            e.rm(c.get('r'), c.get('f'), [K(p) for p in c['paths']])
        elif op == 'cp':
            e.cp(c.get('r'), [K(p) for p in c['srcs']], K(c['dest']))
        elif op == 'mv':
            full = {key(p): p for p in c['srcs'] + [c['dest']]}
            def same_of(s, d):
                # children inherit the spelling of the argument they came from
                src = next(p for p in c['srcs'] if s[0] == p[0] and tuple(s[1][:len(p[1])]) == tuple(p[1]))
                return same_fs(src, c['dest'])
            e.mv([K(p) for p in c['srcs']], K(c['dest']), same_of)
        elif op == 'cat':
            return True, e.cat([K(p) for p in c['srcs']], K(c['out']) if c.get('out') else None)
        return True, None
    except Fail as f:
        return False, None


def host_walk(root):
    out = {}
    for d, dirs, files in os.walk(root):
        rel = os.path.relpath(d, root)
        pre = '' if rel == '.' else rel + '/'
        for n in dirs:
            out[pre + n] = ['d']
        for n in files:
            with open(os.path.join(d, n), 'rb') as f:
                data = f.read()
            out[pre + n] = ['f', len(data), hashlib.sha1(data).hexdigest()]
    return out


def fat_hook():
    try:
        import fatcheck
        return getattr(fatcheck, 'fat_consistency', None)
    except Exception:
        return None


def between(before, after, actual):
    """after an out-of-space failure: every entry is one of before/after (files may be a
    prefix-length cut of the intended content), untouched entries are intact"""
    for path, ent in actual.items():
        b, a = before.get(path), after.get(path)
        if ent[:3] == (b or [])[:3] or ent[:3] == (a or [])[:3]:
            continue
        if a and a[0] == 'f' and ent[0] == 'f' and ent[1] <= a[1]:
            continue            # truncated copy (content prefix is checked by the caller when it can)
        return f'unexpected entry {path}: {ent}'
    for path, ent in before.items():
        if after.get(path, [None])[:3] == ent[:3] and actual.get(path, [None])[:3] != ent[:3]:
            return f'untouched entry {path} changed: {actual.get(path)}'
    return None


def run_sequence(worker, seq, log=None):
    """-> None, or (signature, description, index of the failing command)"""
    T = tempfile.mkdtemp(prefix='c19-')
    try:
        os.mkdir(os.path.join(T, 'host'))
        image = os.path.join(T, 'disk.img')
        layout = build_image(image, seq.vols)
        parts = list(range(1, len(seq.vols) + 1))
        state = {'h': {}}
        for n in parts:
            state[n] = {}
        hook = fat_hook()
        for i, c in enumerate(seq.cmds):
            before = {k: flat(v) for k, v in state.items()}
            prev = deep(state)
            ok, want_out = apply_expected(state, c)
            if c['op'] == 'put':
                path = render(T, c['path'])
                if not ok:
                    state.update(prev); continue
                with open(path, 'wb') as f:
                    f.write(content_of(c['size'], c['seed']))
                continue
            argv = argv_of(T, c)
            show = ' '.join(a.replace(T + '/', '') for a in argv)
            try:
                r = worker.call({'op': 'sh', 'argv': argv})
            except Hang:
                return (f'sh/{c["op"]}/hang', f'`{show}` did not return within 30 s', i)
            rc = r['rc']
            if log is not None:
                log.append((show, rc, r['err'].strip()[-120:]))
            kinds = sorted({('host' if p[0] == 'h' else 'fat') for p in
                            c.get('paths', []) + c.get('srcs', []) + ([c['dest']] if c.get('dest') else []) +
                            ([c['out']] if c.get('out') else [])})
            tag = f'sh/{c["op"]}/' + '+'.join(kinds)
            if not isinstance(rc, int):
                return (tag + '/crash', f'`{show}` escaped main(): {rc}', i)
            enospc = rc != 0 and 'No space left' in r['err']
            _stat('sh-out-of-space' if enospc else 'sh-expected-failure' if not ok else 'sh-success')
            if ok and rc != 0 and not enospc:
                return (tag + '/unexpected-failure', f'`{show}` failed ({r["err"].strip()[-160:]!r}) but should succeed', i)
            if not ok and rc == 0:
                return (tag + '/unexpected-success', f'`{show}` reported success but should fail', i)
            # trees
            try:
                w = worker.call({'op': 'walk', 'image': image, 'parts': parts})
            except Hang:
                return (tag + '/walk-hang', f'reading the image back after `{show}` did not return', i)
            actual = {'h': host_walk(os.path.join(T, 'host'))}
            for n in parts:
                res = w[str(n)]
                if 'error' in res:
                    return (tag + '/image-unreadable', f'after `{show}` partition {n} cannot be read back: {res["error"]}', i)
                bad = [k for k, v in res['tree'].items() if v == ['dup']]
                if bad:
                    return (tag + '/duplicate-entry', f'after `{show}` partition {n} lists {bad[0]!r} twice', i)
                for k, v in res['tree'].items():
                    if v[0] == 'f' and v[1] != v[3]:
                        return (tag + '/size-mismatch', f'after `{show}` {k!r} on partition {n}: directory entry says '
                                                        f'{v[3]} bytes, {v[1]} can be read', i)
                if res['warnings']:
                    return (tag + '/fs-warning', f'after `{show}` opening partition {n} warns {res["warnings"]}', i)
                actual[n] = {k: v[:3] for k, v in res['tree'].items()}
            if hook:
                with open(image, 'rb') as f:
                    raw = f.read()
                for n, (off, ln) in zip(parts, layout):
                    try:
                        # a directory moved within an image: always look (its '..' entry must name the new parent)
                        moved_dir = c.get('op') == 'mv' and c['dest'][0] == n and any(
                            s_[0] == n and isinstance(lookup(prev[n], tuple(s_[1])), dict) for s_ in c['srcs'])
                        verdict = hook(raw[off:off + ln], force=True) if moved_dir else hook(raw[off:off + ln])
                    except TypeError:
                        verdict = hook(raw[off:off + ln])
                    except Exception as exc:
                        verdict = None
                    if verdict not in (None, True, [], ''):
                        return (tag + '/fat-inconsistent', f'after `{show}` partition {n} is structurally inconsistent: '
                                                           f'{str(verdict)[:200]}', i)
            if enospc:
                for fs in state:
                    msg = between(before[fs], flat(state[fs]), actual[fs])
                    if msg:
                        return (tag + '/enospc-damage', f'`{show}` ran out of space and left fs {fs} inconsistent: {msg}', i)
                # adopt what is there: rebuild the expected trees from the actual ones
                if not adopt(T, state, prev, actual, parts, worker, image):
                    return (tag + '/enospc-damage', f'`{show}` ran out of space; a truncated copy is not a prefix of its source', i)
                continue
            for fs in state:
                exp = flat(state[fs])
                if exp != actual[fs]:
                    diff = sorted(set(exp) ^ set(actual[fs])) or [k for k in exp if exp[k] != actual[fs].get(k)]
                    what = 'succeeded' if ok else 'failed'
                    return (tag + ('/tree-mismatch' if ok else '/failure-changed-tree'),
                            f'`{show}` {what}; {"host" if fs == "h" else "partition " + str(fs)} differs from the expected '
                            f'tree at {diff[:3]}: expected {[exp.get(d) for d in diff[:3]]}, found {[actual[fs].get(d) for d in diff[:3]]}', i)
            if want_out is not None and rc == 0 and bytes.fromhex(r['out']) != want_out:
                return (tag + '/stdout', f'`{show}` wrote {len(r["out"]) // 2} bytes to stdout, expected {len(want_out)}', i)
        return None
    finally:
        shutil.rmtree(T, ignore_errors=True)


def adopt(T, state, prev, actual, parts, worker, image):
    """after ENOSPC: expected := actual, taking contents from the intended (post) or previous state;
    truncated files must be prefixes of the intended content"""
    intended = deep(state)
    for fs in list(state):
        new = {}
        for path, ent in sorted(actual[fs].items()):
            comps = tuple(path.split('/'))
            par = lookup(new, comps[:-1])
            if ent[0] == 'd':
                par[comps[-1]] = {}
                continue
            cands = [lookup(intended[fs], comps), lookup(prev[fs], comps)]
            val = None
            for c in cands:
                if isinstance(c, bytes):
                    cut = c[:ent[1]]
                    if hashlib.sha1(cut).hexdigest() == ent[2] and len(cut) == ent[1]:
                        val = cut
                        break
            if val is None:
                return False
            par[comps[-1]] = val
        state[fs] = new
    return True


# ----------------------------------------------------------------------------- generation
def gen_sequence(rng, length):
    types = ['fat12', 'fat16', 'fat32']
    t1, t2 = rng.choice(types), rng.choice(types)
    vols = [[t1, rng.choice([300, 600]), rng.choice([1, 4])]]
    two = rng.random() < 0.8
    if two:
        vols.append([t2, rng.choice([40, 150, 600]), rng.choice([1, 2])])
    fss = ['h', 1] + ([2] if two else [])
    state = {fs: {} for fs in fss}
    cmds = []
    seedc = [rng.randrange(1 << 30)]

    def style(fs):
        return rng.choice(['n', 'n', 'a']) if fs == 1 else 'n'

    def P(fs, comps):
        return [fs, list(comps), style(fs)]

    def entries(fs, want=None):
        out = []
        def rec(node, pre):
            for k, v in node.items():
                isd = isinstance(v, dict)
                if want is None or (want == 'd') == isd:
                    out.append(pre + (k,))
                if isd:
                    rec(v, pre + (k,))
        rec(state[fs], ())
        return out

    def dirs(fs):
        return [()] + entries(fs, 'd')

    def fresh(fs):
        d = rng.choice(dirs(fs))
        node = lookup(state[fs], d)
        free = [n for n in NAMES if n not in node]
        return d + (rng.choice(free),) if free else None

    def anyfs():
        return rng.choice(fss)

    def emit(c):
        cmds.append(c)
        apply_expected(state, c)

    # seed a few host files of interesting sizes
    for _ in range(rng.randrange(2, 4)):
        p = fresh('h')
        if p:
            seedc[0] += 1
            emit({'op': 'put', 'path': ['h', list(p)], 'size': rng.choice(SIZES), 'seed': seedc[0]})
    while len(cmds) < length:
        r = rng.random()
        fs = anyfs()
        files, ds = entries(fs, 'f'), entries(fs, 'd')
        if r < 0.04 and files:                          # a file onto itself / into its own directory
            f = rng.choice(files)
            src = P(fs, f)
            dest = P(fs, f) if rng.random() < 0.5 else P(fs, f[:-1])
            if rng.random() < 0.5:
                emit({'op': 'cp', 'r': False, 'srcs': [src], 'dest': dest})
            else:
                emit({'op': 'mv', 'srcs': [src], 'dest': dest})
        elif r < 0.07 and fs != 'h' and [d for d in ds if d[-1].swapcase() != d[-1]]:
            # an image directory into its own sub-tree, spelled in another case (FAT names are case-insensitive):
            # must be refused and change nothing (the expected-state model refuses it too: it sees no such parent)
            d = rng.choice([d for d in ds if d[-1].swapcase() != d[-1]])
            emit({'op': 'mv', 'srcs': [P(fs, d)], 'dest': P(fs, d[:-1] + (d[-1].swapcase(), 'inner'))})
        elif r < 0.30:                                  # cp
            sfs = anyfs()
            sf, sd = entries(sfs, 'f'), entries(sfs, 'd')
            q = rng.random()
            if q < 0.08:
                src = P(sfs, fresh(sfs) or ('nope',))      # missing source
            elif sd and q < 0.35:
                src = P(sfs, rng.choice(sd))
            elif sf:
                src = P(sfs, rng.choice(sf))
            else:
                continue
            into = ds and rng.random() < 0.3
            if into:
                dest = P(fs, rng.choice(ds))
            else:
                t = fresh(fs)
                if rng.random() < 0.25 and files:
                    t = rng.choice(files)                  # overwrite
                if t is None:
                    continue
                dest = P(fs, t)
            if key(src) == key(dest) or (src[0] == dest[0] and tuple(dest[1][:len(src[1])]) == tuple(src[1])):
                continue
            node = lookup(state[src[0]], src[1])
            rflag = isinstance(node, dict) and rng.random() < 0.85
            srcs = [src]
            if into and sf and rng.random() < 0.2:
                extra = P(sfs, rng.choice(sf))
                if key(extra) != key(src) and extra[1][-1] != src[1][-1]:
                    srcs.append(extra)
            emit({'op': 'cp', 'r': bool(rflag), 'srcs': srcs, 'dest': dest})
        elif r < 0.50:                                  # mv
            sfs = anyfs()
            sf, sd = entries(sfs, 'f'), entries(sfs, 'd')
            q = rng.random()
            if q < 0.08:
                src = P(sfs, fresh(sfs) or ('nope',))
            elif sd and q < 0.4:
                src = P(sfs, rng.choice(sd))
            elif sf:
                src = P(sfs, rng.choice(sf))
            else:
                continue
            node = lookup(state[src[0]], src[1])
            if ds and rng.random() < 0.35:
                dest = P(fs, rng.choice(ds))
                tgt = tuple(dest[1]) + (src[1][-1],)
            else:
                t = fresh(fs)
                if not isinstance(node, dict) and files and rng.random() < 0.25:
                    t = rng.choice(files)
                if t is None:
                    continue
                dest = P(fs, t)
                tgt = tuple(t)
            # not onto itself, not into its own subtree
            if src[0] == dest[0] and (tuple(tgt[:len(src[1])]) == tuple(src[1]) or tuple(dest[1][:len(src[1])]) == tuple(src[1])):
                continue
            # directories only move to fresh names (rename semantics onto existing directories differ between
            # POSIX and FAT and are not specified by sh.py)
            if isinstance(node, dict) and lookup(state[dest[0]], tgt) is not None:
                continue
            if src[0] == dest[0] and src[0] == 1:
                if rng.random() < 0.8:
                    dest[2] = src[2]
            emit({'op': 'mv', 'srcs': [src], 'dest': dest})
        elif r < 0.60:                                  # rm
            q = rng.random()
            if q < 0.15:
                t = fresh(fs)
                if t:
                    emit({'op': 'rm', 'r': False, 'f': rng.random() < 0.5, 'paths': [P(fs, t)]})
            elif ds and q < 0.5:
                emit({'op': 'rm', 'r': rng.random() < 0.8, 'f': False, 'paths': [P(fs, rng.choice(ds))]})
            elif files:
                ps = [P(fs, rng.choice(files))]
                if len(files) > 1 and rng.random() < 0.2:
                    o = rng.choice(files)
                    if o != tuple(ps[0][1]):
                        ps.append(P(fs, o))
                emit({'op': 'rm', 'r': rng.random() < 0.2, 'f': rng.random() < 0.2, 'paths': ps})
        elif r < 0.68:                                  # rmdir
            if ds and rng.random() < 0.85:
                emit({'op': 'rmdir', 'paths': [P(fs, rng.choice(ds))]})
            else:
                t = rng.choice(files) if files and rng.random() < 0.5 else fresh(fs)
                if t:
                    emit({'op': 'rmdir', 'paths': [P(fs, t)]})
        elif r < 0.82:                                  # mkdir
            t = fresh(fs)
            q = rng.random()
            if q < 0.12 and ds:
                emit({'op': 'mkdir', 'parents': False, 'paths': [P(fs, rng.choice(ds))]})       # exists
            elif q < 0.3 and t:
                free = [n for n in NAMES if n != t[-1]]
                emit({'op': 'mkdir', 'parents': True, 'paths': [P(fs, t + (rng.choice(free),))]})
            elif q < 0.38 and t:
                emit({'op': 'mkdir', 'parents': False, 'paths': [P(fs, t + ('deep',))]})        # parent missing
            elif t:
                emit({'op': 'mkdir', 'parents': False, 'paths': [P(fs, t)]})
        elif r < 0.90:                                  # touch
            t = fresh(fs)
            if files and rng.random() < 0.3:
                t = rng.choice(files)
            if t:
                emit({'op': 'touch', 'paths': [P(fs, t)]})
        else:                                           # cat
            pool = [(f, e) for f in fss for e in entries(f, 'f')]
            if not pool:
                continue
            srcs = [P(*rng.choice(pool)) for _ in range(rng.randrange(1, 4))]
            if rng.random() < 0.08:
                srcs.append(P(fs, fresh(fs) or ('nope',)))
            if rng.random() < 0.75:
                t = fresh(fs)
                if files and rng.random() < 0.2:
                    t = rng.choice(files)
                if t is None or any(key(s) == (fs, tuple(t)) for s in srcs):
                    continue
                emit({'op': 'cat', 'srcs': srcs, 'out': P(fs, t)})
            else:
                emit({'op': 'cat', 'srcs': srcs})
    return Seq(vols, cmds)


def roundtrip_sequence(rng, size):
    """copy into an image, across partitions, and back out"""
    t1, t2 = rng.choice(['fat12', 'fat16', 'fat32']), rng.choice(['fat12', 'fat16', 'fat32'])
    vols = [[t1, 600, 1], [t2, 600, 1]]
    s = rng.randrange(1 << 30)
    a = rng.choice(['n', 'a'])
    cmds = [
        {'op': 'put', 'path': ['h', ['src.bin']], 'size': size, 'seed': s},
        {'op': 'mkdir', 'parents': True, 'paths': [[1, ['d1', 'sub'], a]]},
        {'op': 'cp', 'r': False, 'srcs': [['h', ['src.bin'], 'n']], 'dest': [1, ['d1', 'sub', 'in.bin'], a]},
        {'op': 'cp', 'r': True, 'srcs': [[1, ['d1'], 'n']], 'dest': [2, ['copy'], 'n']},
        {'op': 'mv', 'srcs': [[2, ['copy', 'sub', 'in.bin'], 'n']], 'dest': [2, ['moved.bin'], 'n']},
        {'op': 'cp', 'r': False, 'srcs': [[2, ['moved.bin'], 'n']], 'dest': ['h', ['back.bin'], 'n']},
        {'op': 'cat', 'srcs': [[1, ['d1', 'sub', 'in.bin'], a], ['h', ['back.bin'], 'n']], 'out': ['h', ['twice.bin'], 'n']},
        {'op': 'cat', 'srcs': [[2, ['moved.bin'], 'n']]},
        {'op': 'rm', 'r': True, 'f': False, 'paths': [[1, ['d1'], a]]},
        {'op': 'rmdir', 'paths': [[2, ['copy', 'sub'], 'n']]},
        {'op': 'rmdir', 'paths': [[2, ['copy'], 'n']]},
    ]
    return Seq(vols, cmds)


def dirmove_sequence(rng, ft):
    """directories moved around inside one partition (into / out of the root, between sub-directories, across
    partitions): the structural check runs after every such move (the '..' entry must name the new parent, 0 for a root)"""
    vols = [[ft, 300, 1], [rng.choice(['fat12', 'fat16', 'fat32']), 150, 1]]
    a = rng.choice(['n', 'a'])
    cmds = [
        {'op': 'put', 'path': ['h', ['f.bin']], 'size': 700, 'seed': rng.randrange(1 << 30)},
        {'op': 'mkdir', 'parents': True, 'paths': [[1, ['B', 'SUB', 'DEEP'], a]]},
        {'op': 'cp', 'r': False, 'srcs': [['h', ['f.bin'], 'n']], 'dest': [1, ['B', 'SUB', 'f.bin'], a]},
        {'op': 'mv', 'srcs': [[1, ['B', 'SUB'], a]], 'dest': [1, [], a]},                     # sub-directory -> root
        {'op': 'mv', 'srcs': [[1, ['SUB', 'DEEP'], 'n']], 'dest': [1, ['TOP'], 'n']},            # ... under a new name
        {'op': 'mv', 'srcs': [[1, ['TOP'], 'n']], 'dest': [1, ['B', 'down again'], 'n']},        # root -> sub-directory
        {'op': 'mv', 'srcs': [[1, ['B', 'down again'], 'n']], 'dest': [1, ['SUB'], 'n']},        # sub-directory -> sub-directory
        {'op': 'mv', 'srcs': [[1, ['SUB'], 'n']], 'dest': [2, ['over there'], 'n']},             # across partitions
        {'op': 'mv', 'srcs': [[2, ['over there', 'down again'], 'n']], 'dest': [2, [], 'n']},
        {'op': 'cp', 'r': False, 'srcs': [[2, ['over there', 'f.bin'], 'n']], 'dest': ['h', ['back.bin'], 'n']},
        {'op': 'rm', 'r': True, 'f': False, 'paths': [[2, ['over there'], 'n'], [2, ['down again'], 'n'], [1, ['B'], a]]},
    ]
    return Seq(vols, cmds)


def shrink(worker, seq, sig, budget=40):
    """greedy removal of commands while the same signature is reported"""
    cmds = list(seq.cmds)
    i = len(cmds) - 1
    while i >= 0 and budget > 0:
        trial = cmds[:i] + cmds[i + 1:]
        budget -= 1
        r = run_sequence(worker, Seq(seq.vols, trial))
        if r and r[0] == sig:
            cmds = trial[:r[2] + 1]
            i = min(i, len(cmds)) - 1
        else:
            i -= 1
    return Seq(seq.vols, cmds)
