"""C01 -- Octet transfers deliver exactly the file under any network behaviour."""
import struct, json
import lib
from tftpnet import RfcClient, run_network

SPEC = {
    'rule': 'in-process transfers (real TFTPClientState / handlers / service_actions, fake sockets, virtual clock) of '
            'files with lengths 0, 1, k*B-1, k*B, k*B+1 and the 65535-block boundary, block sizes {8,9,16,512,1468,65464}, '
            'under a seeded adversarial network (drop, duplicate, reorder, delay, timeouts, foreign-endpoint packets, '
            'retransmitted requests); every event list is replayed on the extracted model and outputs/state compared '
            'after each event; oracle: every DATA k carries file[(k-1)B:kB], client reconstruction equals the file. '
            'Non-trivial = session with at least one disturbance or >1 block; distinct = distinct event list.',
    'trusted_base': [
        'Coq 8.16.1 kernel; theorems closed under the global context',
        'translator gen_tftp.py: finished / get_block comparisons, DATA/ACK block ranges, default block size',
        'extraction (ExtrOcamlBasic) + runner/driver.ml; harness fake socket + virtual clock',
        'modelled not verified: UDP, socketserver dispatch, io.BufferedReader.read returning full blocks',
    ],
    'theorems': {},
    'assumptions': ['source.read(n) returns n bytes unless at end of file (buffered readers)',
                    'liveness under loss is not claimed: the server gives up after 5 timeouts (C09)'],
}


def make_checker(ctx, files, clients, record):
    bycid = {c.cid: c for c in clients}
    def check(S, from_tid, b, cid):
        if from_tid == 0 or cid is None or len(b) < 4 or b[:2] != b'\0\3':
            return
        c = bycid[cid]
        content = files.get(c.filename)
        if not isinstance(content, (bytes, bytearray)):
            return
        sub = S.sim.subs.get(from_tid)
        if sub is None:
            return
        B = sub.client_state.block_size
        k = b[2] * 256 + b[3]
        want = bytes(content[(k - 1) * B:k * B])
        record['data'] += 1
        if not (1 <= k <= 65535) or b[4:] != want:
            ctx.violation('tftpd.DATA/wrong-bytes',
                          f'DATA block {k} (B={B}) carries {b[4:40]!r}..., file has {want[:36]!r}... (file length {len(content)})',
                          dict(events=[list(e) for e in S.events[-40:]], file_len=len(content), B=B, block=k,
                               payload=b[4:], expected=want))
        if len(b) - 4 < B and (k - 1) * B + (len(b) - 4) != len(content):
            ctx.violation('tftpd.DATA/short-not-last', f'short block {k} is not the last block of a {len(content)}-byte file',
                          dict(events=[list(e) for e in S.events[-40:]], file_len=len(content), B=B, block=k))
    return check


REAL = r'''
import random
rng = random.Random(%(seed)d)
class Strict:
    """RFC 1350 client: the first answering endpoint is the transfer; anything from another endpoint gets ERROR 5"""
    def __init__(self, server, name, opts, repeat_rrq):
        self.s = socket.socket(socket.AF_INET, socket.SOCK_DGRAM); self.s.settimeout(1.0)
        req = b'\0\1' + name + b'\0octet\0'
        for k, v in opts: req += k + b'\0' + v + b'\0'
        self.B = 512; self.buf = b''; self.expect = 1; self.peer = None; self.finished = False; self.strays = 0; self.timeouts = 0
        for _ in range(1 + repeat_rrq):          # the request is duplicated / retransmitted before any answer is read
            self.s.sendto(req, server)
            time.sleep(0.02)
    def run(self):
        last = None
        while not self.finished and self.timeouts < 4:
            try:
                d, peer = self.s.recvfrom(70000)
            except socket.timeout:
                self.timeouts += 1
                if last: self.s.sendto(last, self.peer)
                continue
            if self.peer is None: self.peer = peer
            if peer != self.peer:
                self.strays += 1
                self.s.sendto(b'\0\5\0\5Unknown transfer ID\0', peer)
                continue
            if d[:2] == b'\0\6':
                parts = d[2:].split(b'\0'); o = dict(zip(parts[0:-1:2], parts[1:-1:2]))
                if b'blksize' in o: self.B = int(o[b'blksize'])
                last = b'\0\4\0\0'
            elif d[:2] == b'\0\3':
                k = d[2] * 256 + d[3]
                if k == self.expect:
                    self.buf += d[4:]; self.expect += 1
                    if len(d) - 4 < self.B: self.finished = True
                last = struct.pack('!HH', 4, self.expect - 1)
            elif d[:2] == b'\0\5':
                break
            else:
                continue
            self.s.sendto(last, self.peer)
        self.s.close()
with tempfile.TemporaryDirectory() as d:
    data = bytes(rng.getrandbits(8) for _ in range(5000))
    open(os.path.join(d, 'f'), 'wb').write(data)
    srv, th = start(d)
    res = []
    for opts in ([], [(b'blksize', b'64')], [(b'blksize', b'1468'), (b'tsize', b'0')]):
        for repeat in (1, 2):
            c = Strict(srv.server_address, b'f', opts, repeat)
            c.run()
            res.append(dict(opts=[o[0].decode() for o in opts], repeat=repeat, finished=c.finished, ok=(c.buf == data), got=len(c.buf), strays=c.strays))
    srv.shutdown(); srv.server_close()
print(json.dumps({'runs': res, 'size': len(data)}))
'''


def real_retransmitted_request(ctx):
    """real threads and sockets: a request that is duplicated / retransmitted before the first answer arrives starts a
    second transfer; the client keeps to the first one (RFC 1350) and must still receive exactly the file"""
    import realserver
    res = realserver.run_script(REAL % dict(seed=ctx.seed), timeout=120)
    ctx.case(('real-retransmitted-rrq',), True, 'real-udp')
    if res.get('crash'):
        ctx.violation('tftpd.real/harness-crash', f'real-UDP scenario crashed: {res.get("stderr", "")[-300:]}', res)
        return
    for r in res['runs']:
        ctx.stat('real-retransmitted-rrq-run')
        if not (r['finished'] and r['ok']):
            ctx.violation('tftpd.real/retransmitted-request', f'the request was sent {1 + r["repeat"]} times (options {r["opts"]}); the client kept to the '
                          f'first transfer and received {r["got"]} of {res["size"]} bytes, finished={r["finished"]}', dict(result=res))
            return


def run(ctx, build):
    real_retransmitted_request(ctx)
    # sources backed by a FAT image (what the boot server really serves): whole files through the real BootHandler with
    # block sizes that do and do not divide the cluster size
    from props import c07
    c07.boards_overlap(ctx)
    if ctx.violations:
        return
    R = ctx.try_runner('Tftp')
    rng = ctx.rng
    nsess = 20000 if ctx.thorough else 120
    if ctx.widen:
        nsess *= 2
    rec = {'data': 0}
    Bs = [8, 9, 16, 512, 1468, 65464, 65465, 70000]   # the last two: requests above the cap; the client goes by the OACK
    for i in range(nsess):
        B = rng.choice(Bs) if i % 5 else None          # None: no options, 512 default, starts with DATA 1
        eff = min(B or 512, 65464)
        k = rng.choice([0, 1, 2, 3, 5]) if eff < 65464 else rng.choice([0, 1, 1, 2])
        n = max(0, k * eff + rng.choice([-1, 0, 1]))
        if rng.random() < 0.1:
            n = rng.choice([0, 1])
        content = bytes((j * 7 + j // eff) % 251 for j in range(n))
        files = {'f.bin': content, 'other.bin': b'Z' * (eff + 3)}
        opts = {}
        if B:
            opts['blksize'] = B
        if rng.random() < 0.3:
            opts['tsize'] = 0
        if rng.random() < 0.2:
            opts['timeout'] = rng.choice([1, 2])
        c = RfcClient(1, 'f.bin', 'octet', opts)
        clients = [c]
        calm = (i % 4 == 0)
        profile = dict(drop=0, dup=0, reorder=0, tick=0, foreign=0, rrq_again=0, client_retx=0, reap=0) if calm else \
            dict(drop=rng.choice([0, .1, .3]), dup=rng.choice([0, .1, .3]), reorder=rng.choice([0, .3, .8]),
                 tick=rng.choice([0, .1, .3]), foreign=rng.choice([0, .1]), rrq_again=rng.choice([0, .05]),
                 client_retx=rng.choice([0.05, .2]), reap=0.02)
        S = run_network(rng, files, clients, 60 + 40 * (k + 1), profile, make_checker(ctx, files, clients, rec))
        try:
            ctx.case(repr(S.events), nontrivial=(not calm or k >= 1), kind='calm' if calm else 'adversarial')
            if c.finished and bytes(c.buf) != content:
                ctx.violation('tftpd.transfer/client-reconstructs-wrong-file',
                              f'client finished with {len(c.buf)} bytes, file has {len(content)}',
                              dict(events=[list(e) for e in S.events], file=content, got=bytes(c.buf)))
            if calm and not c.finished:
                ctx.violation('tftpd.transfer/ideal-run-incomplete',
                              f'loss-free in-order transfer of {len(content)} bytes (B={eff}) did not complete: aborted={c.aborted}',
                              dict(events=[list(e) for e in S.events], file=content))
            if c.finished:
                ctx.stat('client-finished')
            if not c.finished and c.buf != content[:len(c.buf)]:
                ctx.violation('tftpd.transfer/client-prefix', 'client buffer is not a prefix of the file',
                              dict(events=[list(e) for e in S.events], file=content, got=bytes(c.buf)))
            S.compare(ctx, R, 'tftpd.transfer')
            if i < 3:
                ctx.sample(dict(file_len=n, B=eff, profile=profile, n_events=len(S.events),
                                first_events=[list(e)[:4] for e in S.events[:4]]))
        finally:
            S.close()

    # ---- the 65535-block boundary, straight run, B = 8 ------------------------------------------
    sizes = [65535 * 8 - 1, 65535 * 8, 65535 * 8 + 1] if (ctx.thorough or ctx.widen) else [65535 * 8 - 1, 65535 * 8]
    for n in sizes:
        content = bytes((j * 13 + j // 8) % 253 for j in range(n))
        files = {'big.bin': content}
        c = RfcClient(1, 'big.bin', 'octet', {'blksize': 8})
        S = run_network(rng, files, [c], 140000, dict(drop=0, dup=0, reorder=0, tick=0, foreign=0, rrq_again=0, client_retx=0, reap=0),
                        make_checker(ctx, files, [c], rec))
        try:
            ctx.case(('boundary', n), True, 'boundary-65535')
            fits = n < 65535 * 8
            last = S.outs[-1][0] if S.outs else []
            if fits:
                if not c.finished or bytes(c.buf) != content:
                    ctx.violation('tftpd.transfer/boundary-fit', f'{n}-byte file (fits in 65535 blocks of 8) not delivered: finished={c.finished}',
                                  dict(file_len=n, B=8, events_tail=[list(e) for e in S.events[-5:]]))
            else:
                errs = [b for o in S.outs[-3:] for t, b, a in o[0] if b[:2] == b'\0\5']
                done = all(s.done for s in S.sim.subs.values())
                if c.finished or not errs or not done:
                    ctx.violation('tftpd.transfer/boundary-overflow',
                                  f'{n}-byte file does not fit in 65535 blocks of 8: client finished={c.finished} '
                                  f'(got {len(c.buf)} bytes), ERROR sent={bool(errs)}, transfer done={done}',
                                  dict(file_len=n, B=8, events_tail=[list(e) for e in S.events[-5:]]))
            S.compare(ctx, R, 'tftpd.transfer')
        finally:
            S.close()
    ctx.extra['data_packets_checked'] = rec['data']


def replay(ctx, obj):
    print(json.dumps(obj, indent=1)[:4000])
    return False
