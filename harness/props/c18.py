"""C18 -- the directory server never serves anything outside its base directory."""
import os, sys, json, errno, shutil, struct, socket, tempfile, threading, types, logging
from pathlib import Path, PurePosixPath
import lib

SPEC = {
    'rule': 'random directory trees materialised under a temporary directory: base "tftp" (files, nested sub-directories, '
            'symlinks pointing inside, outside, at directories, dangling, self- and mutually-looping, chained, absolute and '
            'relative, with ".." after a link), a sibling "tftp2" sharing the name prefix and holding planted secrets, a '
            'third directory; request names: relative / absolute (incl. the absolute path of a secret and of an inside '
            'file), "//" and "///" anchors, "." and ".." at any depth, redundant and trailing slashes, missing, 255- and '
            '256-byte and non-ASCII components, paths leaving the base and coming back.  Each name goes through the real '
            'SimpleTFTPHandler.resolve_path + open("rb").read() and through the extracted model on the same abstract tree '
            '(outcome class, returned path, content); `base / name`, Path.resolve() and Path.resolve(strict=True) are '
            'compared with the model separately; the oracle asks the kernel (/proc/self/fd) where every served file really '
            'lives.  A sample goes through the real do_RRQ/handle ladder in-process (ERROR codes) and, in the thorough '
            'tier, through a real SimpleTFTPServer on 127.0.0.1.  Non-trivial = name with a link, "..", an anchor or a '
            'missing component on its way; distinct = distinct (tree, name).',
    'trusted_base': [
        'Coq 8.16.1 kernel; vm_compute only in the non-vacuity example',
        'translator harness/gen_resolve.py: shape of resolve_path (both .resolve() calls, `base_path in p.parents`, '
        'strict re-check), SimpleTFTPServer.__init__, path.open("rb"), the except ladders of do_RRQ and handle, tftp.Error',
        'extraction: ExtrOcamlBasic only; runner/driver.ml; OCaml 4.13.1',
        'modelled not verified: CPython 3.12 pathlib parsing and posixpath._joinrealpath (specified by Resolve/Model.v '
        'pyres and compared on every case), the kernel path walk (kwalk: 40 symlinks, NAME_MAX 255), PurePath equality',
    ],
    'theorems': {
        'C18_served_inside': 'full (every tree, base, name, fuel)',
        'C18_inside_served': 'full, relative to the Path.resolve() specification: a name that Path.resolve() maps to a '
                             'regular file strictly inside base is served with its bytes',
        'C18_direct_inside_served': 'full (link-free names: no reference to the resolve specification beyond walking '
                                    'existing directories)',
        'C18_refusal_is_access_violation': 'full (resolved path not under base => PermissionError => ERROR 2)',
        'C18_error_codes': 'facts regenerated from the except ladders of do_RRQ/handle',
        'C18_wiring': 'facts regenerated from source (both resolve() calls, parents test, strict re-check, open mode)',
    },
    'assumptions': [
        'Path.resolve() / Path.resolve(strict=True) behave as Resolve/Model.v `resolve` / `resolve_strict` (CPython 3.12 '
        'posixpath._joinrealpath incl. its give-up on symlink loops); checked by correspondence on every generated case',
        'the tree does not change between resolve_path and open (no races); the process may read every file (no EACCES)',
        'total path length below PATH_MAX; no NUL or surrogate code points in names',
    ],
}

LONG255 = 'L' * 255
LONG256 = 'M' * 256
NONASCII = 'café€'
WIDE = '€' * 85 + 'a'          # 256 bytes in UTF-8, 86 characters: too long for the kernel
WIDE_OK = '€' * 85             # 255 bytes


# ----------------------------------------------------------------------------- trees
def gen_tree(rng, dname):
    """abstract tree of the temp directory: {'tftp': dir, 'tftp2': dir, 'other': dir}
    node = ('reg', bytes) | ('dir', {name: node}) | ('link', target)"""
    def content():
        return bytes(rng.randrange(256) for _ in range(rng.choice([0, 1, 5, 40, 600])))
    names = ['a', 'b', 'f1', 'f2', 'sub', 'd', 'deep', NONASCII, 'x.y', '..x', '...', 'tftp', LONG255, WIDE_OK, ' sp ']
    def gen_dir(depth):
        d = {}
        for _ in range(rng.randrange(1, 5)):
            n = rng.choice(names)
            if n in d:
                continue
            if depth < 3 and rng.random() < 0.35:
                d[n] = gen_dir(depth + 1)
            else:
                d[n] = ('reg', content())
        return ('dir', d)
    base = gen_dir(0)
    base[1].setdefault('f1', ('reg', b'inside-f1'))
    base[1].setdefault('sub', ('dir', {'f2': ('reg', b'inside-sub-f2'), 'deep': ('dir', {'g': ('reg', b'g')})}))
    if base[1]['sub'][0] != 'dir':
        base[1]['sub'] = ('dir', {'f2': ('reg', b'inside-sub-f2')})
    secret_dir = ('dir', {'secret': ('reg', b'TOP-SECRET-1'), 'sub': ('dir', {'secret2': ('reg', b'TOP-SECRET-2')}),
                          'f1': ('reg', b'TOP-SECRET-f1')})
    other = ('dir', {'o1': ('reg', b'TOP-SECRET-other'), 'back': ('link', '../tftp')})
    # links inside the base
    D = '/' + '/'.join(dname)
    targets = [
        'f1', 'sub/f2', 'sub', './sub//f2', 'sub/.', '.', '..', '../tftp/f1', 'sub/../f1', 'sub/deep/../../f1',
        '../tftp2/secret', '../tftp2', '../tftp2/sub/secret2', '../other/o1', '../other/back/f1', '../other/back',
        D + '/tftp2/secret', D + '/tftp/f1', D + '/tftp/sub', D + '/tftp2', '/', '//' + D[1:] + '/tftp/f1',
        'nope', 'sub/nope', '../nope/x', '/nonexistent-c18/x',
        'loopA', 'loopB', 'loopC', 'sub/loopS', 'lnk1', 'lnk2', 'lnk3', 'dl', 'dl/f2', 'dl/../f1', 'dl/..',
        'loopA/../f1', 'loopA/../out/secret', 'out/secret', 'f1/x', LONG255, NONASCII,
    ]
    link_names = ['loopA', 'loopB', 'loopC', 'lnk1', 'lnk2', 'lnk3', 'dl', 'out', 'abs', 'up', 'lé']
    dirs = [base[1]] + [v[1] for v in base[1].values() if v[0] == 'dir']
    for _ in range(rng.randrange(2, 9)):
        d = rng.choice(dirs)
        n = rng.choice(link_names)
        if n in d:
            continue
        tg = rng.choice(targets)
        if d is not base[1] and not tg.startswith('/') and rng.random() < 0.7:
            tg = '../' + tg
        d[n] = ('link', tg)
    # frequently: a loop, an outside-pointing link and a link to a directory next to each other
    if rng.random() < 0.6:
        base[1].setdefault('loopA', ('link', rng.choice(['loopA', 'loopB', 'sub/../loopA'])))
        base[1].setdefault('loopB', ('link', 'loopA'))
    if rng.random() < 0.6:
        base[1].setdefault('out', ('link', rng.choice(['../tftp2', D + '/tftp2', '../tftp2/sub', '../other'])))
    if rng.random() < 0.5:
        base[1].setdefault('dl', ('link', rng.choice(['sub', './sub/', 'sub/deep/..', D + '/tftp/sub'])))
    if base[1]['sub'][0] == 'dir' and rng.random() < 0.4:
        base[1]['sub'][1].setdefault('loopS', ('link', '../sub/loopS'))
    return {'tftp': base, 'tftp2': secret_dir, 'other': other}


def materialise(node, path):
    kind = node[0]
    if kind == 'reg':
        with open(path, 'wb') as f:
            f.write(node[1])
    elif kind == 'link':
        os.symlink(node[1], path)
    else:
        os.mkdir(path)
        for n, child in node[1].items():
            materialise(child, os.path.join(path, n))


def wire(node):
    if node[0] == 'reg':
        return [0, node[1]]
    if node[0] == 'link':
        return [2, node[1]]
    return [1, [[n, wire(c)] for n, c in node[1].items()]]


def full_tree(dname, top):
    """the model's "/": the chain of real directories down to the temp dir, then the generated tree"""
    node = ('dir', dict(top))
    for comp in reversed(dname):
        node = ('dir', {comp: node})
    return node


def all_paths(node, prefix=()):
    """relative component tuples of every entry below node"""
    out = []
    if node[0] == 'dir':
        for n, c in node[1].items():
            out.append(prefix + (n,))
            out.extend(all_paths(c, prefix + (n,)))
    return out


def gen_names(rng, top, D, count):
    base_paths = all_paths(top['tftp'])
    pool = ['.', '..', '', 'nope', 'f1', 'sub', 'f2', 'deep', 'secret', 'tftp', 'tftp2', 'other', 'o1',
            LONG255, LONG256, NONASCII, WIDE, WIDE_OK, 'loopA', 'out', 'dl', 'lnk1', 'up', 'abs', '...', ' sp ']
    fixed = [
        '', '.', '..', '/', '//', 'f1', './f1', 'f1/', 'f1//', 'sub/f2', 'sub//f2', 'sub/./f2', 'sub/../f1', 'sub/../../tftp/f1',
        '../tftp2/secret', '../tftp2/f1', '../tftp/f1', '../tftp2/../tftp/f1', 'sub/../../tftp2/secret', '../../../../../../etc/passwd',
        '/etc/passwd', D + '/tftp2/secret', D + '/tftp/f1', '/' + D + '/tftp/f1', '//' + D + '/tftp/f1', D + '/tftp', D + '/tftp/',
        D + '/tftp/../tftp2/secret', D + '/tftp2/../tftp/f1', D + '/tftp/sub/f2', D + '/other/back/f1',
        'loopA', 'loopA/x', 'loopA/../f1', 'loopA/../out/secret', 'loopA/../out/sub/secret2', 'loopA/../dl/f2', 'loopB/../../tftp2/secret',
        'out/secret', 'out/../tftp2/secret', 'out/../f1', 'out/../tftp/f1', 'dl/f2', 'dl/../f1', 'dl/../../tftp2/secret', 'dl/deep/g',
        'sub/loopS', 'sub/loopS/../f2', 'sub/loopS/../../out/secret', 'f1/x', 'f1/..', 'f1/../f1', 'f1/.', 'nope/../f1', 'nope/x/../../f1',
        LONG255, LONG256, LONG256 + '/../f1', 'nope/' + LONG256, 'f1/' + LONG256, WIDE, WIDE_OK, NONASCII, 'sub/' + NONASCII,
        'tftp', 'tftp2', '../tftp2', '../tftp', '..x', '...', ' sp ', 'sub/ sp ',
    ]
    names = list(fixed)
    for p in base_paths:
        names.append('/'.join(p))
        if rng.random() < 0.3:
            names.append('/'.join(p) + rng.choice(['/', '/.', '/..', '/../f1', '/x', '//']))
        if rng.random() < 0.3:
            names.append('./' + '/./'.join(p))
        if rng.random() < 0.2:
            names.append(D + '/tftp/' + '/'.join(p))
    while len(names) < count:
        k = rng.randrange(1, 7)
        comps = []
        for _ in range(k):
            if base_paths and rng.random() < 0.4:
                comps.append(rng.choice(rng.choice(base_paths)))
            else:
                comps.append(rng.choice(pool))
        if sum(len(c.encode()) for c in comps) > 1500:
            continue
        s = rng.choice(['/', '//', '/./', '/../']) if rng.random() < 0.1 else '/'
        nm = s.join(comps) if s != '/' else '/'.join(comps)
        r = rng.random()
        if r < 0.06:
            nm = '/' + nm
        elif r < 0.09:
            nm = '//' + nm
        elif r < 0.12:
            nm = D + '/' + nm
        elif r < 0.15:
            nm = D + '/tftp/' + nm
        if rng.random() < 0.08:
            nm += '/'
        names.append(nm)
    return names


# ----------------------------------------------------------------------------- the implementation
def classify(e):
    if isinstance(e, PermissionError): return 'PermissionError'
    if isinstance(e, FileNotFoundError): return 'FileNotFoundError'
    if isinstance(e, IsADirectoryError): return 'IsADirectoryError'
    if isinstance(e, NotADirectoryError): return 'NotADirectoryError'
    if isinstance(e, RuntimeError): return 'RuntimeError'
    if isinstance(e, OSError):
        return 'OSError:' + errno.errorcode.get(e.errno, str(e.errno))
    return type(e).__name__


def make_handler(base):
    from nobodd.tftpd import SimpleTFTPHandler
    h = SimpleTFTPHandler.__new__(SimpleTFTPHandler)
    h.server = types.SimpleNamespace(base_path=Path(base).resolve())
    return h


def impl_resolve(h, name):
    """-> ('ok', str(p), content, kernel_path) | ('err', class)"""
    try:
        p = h.resolve_path(name)
        with p.open('rb') as f:
            kpath = os.readlink(f'/proc/self/fd/{f.fileno()}')
            return ('ok', str(p), f.read(), kpath)
    except Exception as e:
        return ('err', classify(e), str(e))


def comps_of(s):
    return [c for c in s.split('/') if c]


def text(v):
    return lib.as_text(v)


def model_outcome(v):
    if v[0] == 0:
        return ('ok', '/' + '/'.join(text(c) for c in v[1][0]), bytes(v[1][1]))
    return ('err', v[1].decode())


class FakeSock:
    def __init__(self): self.sent = []
    def sendto(self, b, a): self.sent.append(bytes(b)); return len(b)


def rrq_in_process(base, name):
    """drive TFTPHandler.handle -> do_RRQ for one RRQ without sockets: -> ('DATA', bytes) | ('ERROR', code)"""
    from nobodd import tftpd
    subsock = FakeSock()
    class FakeSub:
        server_address = ('127.0.0.1', 1)
        def __init__(self, main, state): self.socket = subsock; self.client_state = state
    class FakeSubs:
        def __init__(self): self.states = []
        def add(self, s): self.states.append(s.client_state)
    subs = FakeSubs()
    h = tftpd.SimpleTFTPHandler.__new__(tftpd.SimpleTFTPHandler)
    h.server = types.SimpleNamespace(base_path=Path(base).resolve(), logger=tftpd.TFTPBaseServer.logger,
                                     subs=subs, server_address=('127.0.0.1', 69))
    h.client_address = ('127.0.0.1', 9)
    main = FakeSock()
    h.request = (b'\0\1' + name.encode('utf-8') + b'\0octet\0', main)
    orig = tftpd.TFTPSubServer
    tftpd.TFTPSubServer = FakeSub
    try:
        h.setup(); h.handle(); h.finish()
    except UnicodeEncodeError:
        # ERRORPacket.__bytes__ encodes its message as ASCII; an OSError message quoting a
        # non-ASCII path makes handle() raise from its finally block: nothing is answered
        return ('CRASH', 'UnicodeEncodeError')
    finally:
        tftpd.TFTPSubServer = orig
        for st in subs.states:
            st.close()
    pkts = main.sent + subsock.sent
    if len(pkts) != 1:
        return ('NONE', len(pkts))
    op, x = struct.unpack('!HH', pkts[0][:4])
    if op == 5:
        return ('ERROR', x)
    if op == 3:
        return ('DATA', pkts[0][4:])
    return ('OTHER', op)


def udp_fetch(addr, name, timeout=2):
    c = socket.socket(socket.AF_INET, socket.SOCK_DGRAM)
    c.settimeout(timeout)
    try:
        c.sendto(b'\0\1' + name.encode('utf-8') + b'\0octet\0', addr)
        got = b''
        while True:
            pkt, peer = c.recvfrom(70000)
            op, blk = struct.unpack('!HH', pkt[:4])
            if op == 5:
                return ('ERROR', blk)
            got += pkt[4:]
            c.sendto(struct.pack('!HH', 4, blk), peer)
            if len(pkt) - 4 < 512:
                return ('DATA', got)
    except socket.timeout:
        return ('TIMEOUT', None)
    finally:
        c.close()


SECRET = b'TOP-SECRET'


def leads_to(path):
    """where a name leads according to pathlib's own non-strict resolution (CPython, not nobodd: a dangling link is
    followed lexically, missing tails are kept); None when a symbolic-link loop left part of the result unresolved"""
    try:
        p = Path(path).resolve()
    except (OSError, RuntimeError, ValueError):
        return None
    q = p
    try:
        while str(q) != q.anchor:
            if q.is_symlink():
                return None
            q = q.parent
    except OSError:                 # over-long component etc.: not a question of inside / outside
        return None
    return str(p)


def check_tree(ctx, R, rng, nnames, do_rrq, do_udp):
    tmp = os.path.realpath(tempfile.mkdtemp(prefix='c18-'))
    try:
        dname = comps_of(tmp)
        top = gen_tree(rng, dname)
        for n, c in top.items():
            materialise(c, os.path.join(tmp, n))
        base = tmp + '/tftp'
        realbase = os.path.realpath(base)
        tree = full_tree(dname, top)
        wtree = wire(tree)
        base_comps = dname + ['tftp']
        names = gen_names(rng, top, tmp, nnames)
        h = make_handler(base)
        FUEL = 3000
        impls = [impl_resolve(h, n) for n in names]
        if R is not None:
            models = R.batch('resolve', [(wtree, base_comps, n, FUEL) for n in names])
            joins = R.batch('join', [(base_comps, n) for n in names])
        else:                   # the model does not build: oracle only
            models = joins = [None] * len(names)
        treedesc = dict(tree=describe(top), tmp=tmp)
        for name, got, mv, jv in zip(names, impls, models, joins):
            m = model_outcome(mv) if mv is not None else None
            nontriv = ('..' in name or name.startswith('/') or got[0] == 'err'
                       or any(c in name for c in ('lnk', 'loop', 'out', 'dl', 'abs', 'up')))
            ctx.case(('resolve', treedesc['tree'], name), nontriv,
                     'served' if got[0] == 'ok' else 'refused-' + got[1])
            g = got[:3] if got[0] == 'ok' else got[:2]
            if m == ('err', 'OutOfFuel'):
                ctx.stat('model-out-of-fuel')
                continue
            if m is not None and g != m:
                ctx.violation('resolve_path/model-mismatch',
                              f'resolve_path({name!r}) + open: implementation {brief(g)}, model {brief(m)}',
                              dict(api='resolve', name=name, impl=brief(g), model=brief(m), **treedesc))
            # ---- the property itself, evaluated on the implementation
            if got[0] == 'ok':
                _, p, content, kpath = got
                inside = kpath.startswith(realbase + '/')
                if not inside or SECRET in content:
                    ctx.violation('resolve_path/served-outside',
                                  f'RRQ name {name!r} is served from {kpath!r}, outside the base directory {realbase!r} '
                                  f'(resolve_path returned {p!r})',
                                  dict(api='resolve', name=name, served_from=kpath, returned=p, content=content, **treedesc))
                elif kpath != p:
                    ctx.violation('resolve_path/returned-unresolved',
                                  f'resolve_path({name!r}) returned {p!r} which the kernel resolves to {kpath!r}',
                                  dict(api='resolve', name=name, served_from=kpath, returned=p, **treedesc))
                else:
                    with open(kpath, 'rb') as f:
                        if f.read() != content or not os.path.isfile(kpath) or os.path.islink(kpath):
                            ctx.violation('resolve_path/content', f'{name!r}: served bytes differ from the file',
                                          dict(api='resolve', name=name, **treedesc))
            else:
                # a name whose kernel resolution is a regular file strictly inside the base must be served
                try:
                    k = os.path.realpath(os.path.join(base, name) if not name.startswith('/') else name, strict=True)
                except OSError:
                    k = None
                if k and k.startswith(realbase + '/') and os.path.isfile(k):
                    ctx.violation('resolve_path/inside-refused',
                                  f'{name!r} denotes the regular file {k!r} inside the base but was refused: {got[1]}',
                                  dict(api='resolve', name=name, impl=got[1], **treedesc))
                # a name that leaves the base is refused with an ACCESS VIOLATION whether or not something exists at its
                # target (the answer must not reveal which outside paths exist)
                joined = os.path.join(base, name) if not name.startswith('/') else name
                away = leads_to(joined)
                if away and not (away == realbase or away.startswith(realbase + '/')) and got[1] != 'PermissionError' \
                        and not got[1].startswith('OSError:ENAMETOOLONG') and '\0' not in name:
                    ctx.violation('resolve_path/outside-not-access-violation',
                                  f'{name!r} leads outside the base (to {away!r}) and is refused with {got[1]} instead of an access violation',
                                  dict(api='resolve', name=name, impl=got[1], away=away, **treedesc))
            # ---- pathlib join
            pp = PurePosixPath(realbase) / name
            want = [len(pp.root), list(pp.parts[1:] if pp.root else pp.parts)]
            mj = [jv[0], [text(c) for c in jv[1]]] if jv is not None else want
            if want != mj:
                ctx.violation('pathlib-join/model-mismatch', f'base / {name!r}: pathlib {want}, model {mj}',
                              dict(api='join', name=name, pathlib=want, model=mj))
        # ---- Path.resolve() specification, both modes, on the joined paths
        sample = rng.sample(names, min(len(names), max(20, nnames // 3)))
        for strict in ((False, True) if R is not None else ()):
            full = [str(PurePosixPath(realbase) / n) for n in sample]
            ms = R.batch('realpath', [(wtree, f, FUEL, strict) for f in full])
            for n, f, mv in zip(sample, full, ms):
                try:
                    r = ('ok', str(Path(f).resolve(strict=strict)))
                except Exception as e:
                    r = ('err', classify(e))
                m = ('ok', '/' + '/'.join(text(c) for c in mv[1])) if mv[0] == 0 else ('err', mv[1].decode())
                ctx.case(('realpath', strict, treedesc['tree'], n), True, 'Path.resolve-strict' if strict else 'Path.resolve')
                if m == ('err', 'OutOfFuel'):
                    continue
                if r != m and not str(Path(f).resolve()).startswith(tmp + '/'):
                    # the walk left the temporary directory: the real "/" holds entries the model tree lacks
                    ctx.stat('realpath-outside-unmodelled')
                    continue
                if r != m:
                    ctx.violation('Path.resolve/model-mismatch',
                                  f'Path({f!r}).resolve(strict={strict}) = {r}, specification says {m}',
                                  dict(api='realpath', path=f, strict=strict, impl=r, model=m, **treedesc))
        # ---- the real do_RRQ / handle ladder, in process
        if do_rrq and R is None:
            codes = {'PermissionError': 2, 'FileNotFoundError': 1, 'IsADirectoryError': 0, 'NotADirectoryError': 0,
                     'OSError:ELOOP': 0, 'OSError:ENAMETOOLONG': 0, 'RuntimeError': 0}
        if do_rrq:
            codes = codes if R is None else {c[0].decode(): (c[1][0] if c[1] else None) for c in R.call('codes', [])}
            picks = [n for n in rng.sample(names, min(len(names), do_rrq))
                     if n and all(0x20 <= ord(ch) for ch in n)]
            for n in picks:
                got = impl_resolve(h, n)
                r = rrq_in_process(base, n)
                ctx.case(('rrq', treedesc['tree'], n), True, 'do_RRQ')
                if got[0] == 'ok':
                    ok = r == ('DATA', got[2][:512])
                    want = ('DATA', got[2][:512])
                else:
                    want = ('ERROR', codes.get(got[1]))
                    ok = r == want
                if r == ('CRASH', 'UnicodeEncodeError') and want == ('ERROR', 0) and not got[2].isascii():
                    ctx.stat('handler-crash-nonascii-error-message')   # nothing served; outside C18's statement
                    continue
                if not ok:
                    ctx.violation('do_RRQ/ladder', f'RRQ {n!r}: handler answered {brief(r)}, expected {brief(want)} '
                                                   f'(resolve_path outcome {brief(got[:3])})',
                                  dict(api='rrq', name=n, answer=brief(r), expected=brief(want), **treedesc))
                if got[:2] == ('err', 'PermissionError') and r != ('ERROR', 2):
                    ctx.violation('do_RRQ/access-violation-code',
                                  f'RRQ {n!r} is refused by resolve_path (outside the base) but the handler answered '
                                  f'{brief(r)} instead of ERROR 2 (access violation)',
                                  dict(api='rrq', name=n, answer=brief(r), **treedesc))
                if r[0] == 'DATA' and SECRET in r[1]:
                    ctx.violation('resolve_path/served-outside', f'RRQ {n!r} answered with secret content',
                                  dict(api='rrq', name=n, **treedesc))
        # ---- real server, real UDP
        if do_udp:
            from nobodd.tftpd import SimpleTFTPServer
            srv = SimpleTFTPServer(('127.0.0.1', 0), base)
            srv.handle_error = lambda *a: None      # keep socketserver's traceback printing quiet
            th = threading.Thread(target=srv.serve_forever, kwargs={'poll_interval': 0.01}, daemon=True)
            th.start()
            try:
                picks = [n for n in rng.sample(names, min(len(names), do_udp))
                         if n and all(0x20 <= ord(ch) for ch in n)]
                picks += ['loopA/../out/secret', '../tftp2/secret', tmp + '/tftp2/secret', 'f1', 'out/secret']
                for n in picks:
                    got = impl_resolve(h, n)
                    r = udp_fetch(srv.server_address, n)
                    ctx.case(('udp', treedesc['tree'], n), True, 'udp-rrq')
                    if r[0] == 'DATA' and (SECRET in r[1] or got[0] != 'ok' or r[1] != got[2]):
                        ctx.violation('resolve_path/served-outside' if SECRET in r[1] else 'udp/content',
                                      f'real server answered RRQ {n!r} with {len(r[1])} bytes {r[1][:24]!r}; '
                                      f'resolve_path outcome {brief(got[:3])}',
                                      dict(api='udp', name=n, **treedesc))
                    elif r[0] == 'ERROR' and got[0] == 'ok':
                        ctx.violation('udp/refused', f'real server refused {n!r} (code {r[1]}) which resolve_path serves',
                                      dict(api='udp', name=n, **treedesc))
                    elif r[0] == 'ERROR' and got[0] == 'err' and got[1] == 'PermissionError' and r[1] != 2:
                        ctx.violation('udp/code', f'real server answered {n!r} with code {r[1]}, expected 2',
                                      dict(api='udp', name=n, **treedesc))
                    elif r[0] == 'TIMEOUT' and got[0] == 'err' and not got[2].isascii() and \
                            got[1] not in ('PermissionError', 'FileNotFoundError'):
                        # ERRORPacket cannot encode the non-ASCII OSError message: no answer (nothing served)
                        ctx.stat('handler-crash-nonascii-error-message')
                    elif r[0] == 'TIMEOUT':
                        ctx.violation('udp/timeout', f'real server did not answer RRQ {n!r}',
                                      dict(api='udp', name=n, **treedesc))
            finally:
                srv.shutdown(); srv.server_close()
    finally:
        shutil.rmtree(tmp, ignore_errors=True)


def describe(top):
    def d(node):
        if node[0] == 'reg':
            return {'reg': node[1].hex()}
        if node[0] == 'link':
            return {'link': node[1]}
        return {'dir': {n: d(c) for n, c in node[1].items()}}
    return json.dumps({n: d(c) for n, c in top.items()}, sort_keys=True)


def undescribe(s):
    def u(o):
        if 'reg' in o:
            return ('reg', bytes.fromhex(o['reg']))
        if 'link' in o:
            return ('link', o['link'])
        return ('dir', {n: u(c) for n, c in o['dir'].items()})
    return {n: u(c) for n, c in json.loads(s).items()}


def brief(r):
    r = list(r)
    return [x if not isinstance(x, (bytes, bytearray)) else (bytes(x[:24]).hex() + ('...' if len(x) > 24 else '')) for x in r]


def _dedupe(ctx, per_signature=2):
    """report each signature at most twice so that one noisy class cannot hide the others"""
    seen = {}
    orig = ctx.violation
    def violation(sig, what, replay):
        seen[sig] = seen.get(sig, 0) + 1
        if seen[sig] <= per_signature:
            orig(sig, what, replay)
    ctx.violation = violation


RELATIVE_BASE = r'''
with tempfile.TemporaryDirectory() as d:
    for side, text in (('a', b'FROM THE CONFIGURED BASE'), ('b', b'SECRET OF ANOTHER TREE')):
        os.makedirs(os.path.join(d, side, 'tftp'))
        open(os.path.join(d, side, 'tftp', 'file.txt'), 'wb').write(text)
    open(os.path.join(d, 'b', 'tftp', 'only_b.txt'), 'wb').write(b'SECRET OF ANOTHER TREE 2')
    os.chdir(os.path.join(d, 'a'))
    srv, th = start('tftp')                      # a RELATIVE base directory, as `-d tftp` on the command line gives
    res = {}
    def fetch(name):
        for attempt in range(2):                 # a second try only when nothing at all came back (loaded machine)
            c = Client(srv.server_address, 3.0); c.rrq(name); c.run()
            r = dict(finished=c.finished, data=c.buf.decode('latin-1'), error=(c.error or b'')[2:4].hex()); c.close()
            if r['finished'] or r['error'] or r['data']:
                break
        return r
    res['before'] = fetch(b'file.txt')
    os.chdir(os.path.join(d, 'b'))               # the process changes its working directory later
    res['after'] = fetch(b'file.txt')
    res['only_b'] = fetch(b'only_b.txt')
    os.chdir('/')
    res['after_root'] = fetch(b'file.txt')
    srv.shutdown(); srv.server_close()
print(json.dumps(res))
'''


def relative_base(ctx):
    """the base directory is fixed when the server is constructed: a later change of the working directory neither
    moves what is served nor what counts as inside"""
    import realserver
    res = realserver.run_script(RELATIVE_BASE, timeout=60)
    ctx.case(('relative-base',), True, 'real-udp-relative-base')
    if res.get('crash'):
        ctx.violation('tftpd.real/harness-crash', f'relative-base scenario crashed: {res.get("stderr", "")[-300:]}', res)
        return
    want = 'FROM THE CONFIGURED BASE'
    for k in ('before', 'after', 'after_root'):
        if not res[k]['finished'] or res[k]['data'] != want:
            ctx.violation('resolve_path/base-moved', f'server constructed with the relative base "tftp": request for file.txt {k.replace("_", " ")} a chdir '
                          f'returned {res[k]}', dict(result=res))
            return
    if res['only_b']['finished'] or 'SECRET' in res['only_b']['data']:
        ctx.violation('resolve_path/base-moved', f'after a chdir a file of another tree was served: {res["only_b"]}', dict(result=res))


def run(ctx, build):
    _dedupe(ctx)
    logging.disable(logging.CRITICAL)
    relative_base(ctx)
    try:
        R = ctx.runner('Resolve')
    except lib.BuildError:
        R = None                # fail closed elsewhere (the proof build is broken too); still hunt for an input
        ctx.stat('model-unavailable')
    rng = ctx.rng
    ntrees = 700 if ctx.thorough else 200
    if ctx.widen:
        ntrees = max(ntrees, 300)
    for i in range(ntrees):
        check_tree(ctx, R, rng, nnames=260 if ctx.thorough else 170,
                   do_rrq=40 if (ctx.thorough or i < 10) else 0,
                   do_udp=(12 if ctx.thorough and i < 15 else 0))
    ctx.sample(dict(api='resolve', name='loopA/../out/secret',
                    tree='tftp/{loopA->loopB, loopB->loopA, out->../tftp2, f1}, tftp2/{secret}', expect='PermissionError'))
    ctx.sample(dict(api='resolve', name='dl/../f1', tree='tftp/{dl->sub, sub/{f2}, f1}', expect='served tftp/f1'))
    ctx.sample(dict(api='realpath', path='<base>/sub/loopS/../f2', strict=False))


def replay(ctx, obj):
    logging.disable(logging.CRITICAL)
    r = obj['replay']
    print(json.dumps({k: v for k, v in r.items() if k != 'tree'}, indent=1)[:2000])
    if 'tree' not in r:
        return False
    top = undescribe(r['tree'])
    tmp = r['tmp']
    if os.path.exists(tmp):
        tmp = os.path.realpath(tempfile.mkdtemp(prefix='c18-'))
    else:
        os.makedirs(tmp)
    try:
        for n, c in top.items():
            materialise(c, os.path.join(tmp, n))
        base = tmp + '/tftp'
        name = r.get('name', '').replace(r['tmp'], tmp)
        got = impl_resolve(make_handler(base), name)
        print('now:', brief(got))
        if got[0] == 'ok':
            return got[3].startswith(os.path.realpath(base) + '/') and SECRET not in got[2] and got[3] == got[1]
        return r.get('api') in ('resolve',) and obj.get('signature') == 'resolve_path/served-outside'
    finally:
        shutil.rmtree(tmp, ignore_errors=True)
