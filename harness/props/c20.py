"""C20 -- TFTP packets survive a serialise/parse round trip and obey the format."""
import struct, json
import lib

SPEC = {
    'rule': 'random and boundary packet values of all six kinds (printable-ASCII strings, both modes in any case, '
            'blocks 0/1/65535, all error codes, payloads up to 65464) serialised and parsed by implementation and '
            'extracted model; structured and random byte fuzz through Packet.from_bytes; an independent wire decoder '
            'cross-checks implementation output. Non-trivial = packet has a non-empty string/payload/option; '
            'distinct = distinct datagram bytes.',
    'trusted_base': [
        'Coq 8.16.1 kernel; theorems closed under the global context',
        'translator gen_tftp.py: opcodes, error codes and default messages, block ranges, mode/option name sets, '
        'the literal text of the two regular expressions and of the from_bytes dispatch table',
        'extraction (ExtrOcamlBasic only) + runner/driver.ml',
        'modelled not verified: the `re` engine (the two regexes are modelled as explicit scanners), struct, '
        'str.encode/bytes.decode, dict ordering',
    ],
    'theorems': {},
    'assumptions': ['packet values are compared as the Python classes compare them: options as a mapping'],
}

PRINT = ''.join(chr(c) for c in range(0x20, 0x7f))


def rstr(rng, lo, hi, alphabet=PRINT):
    return ''.join(rng.choice(alphabet) for _ in range(rng.randint(lo, hi)))


def canon_packet(p):
    from nobodd import tftp
    def opts(o):
        return [[k.encode('latin-1', 'replace') if isinstance(k, str) else k,
                 [1, v] if isinstance(v, int) else [0, lib_text(v)]] for k, v in o.items()]
    if isinstance(p, tftp.WRQPacket):
        return [2, lib_text(p.filename), lib_text(p.mode), opts(p.options)]
    if isinstance(p, tftp.RRQPacket):
        return [1, lib_text(p.filename), lib_text(p.mode), opts(p.options)]
    if isinstance(p, tftp.DATAPacket):
        return [3, p.block, p.data]
    if isinstance(p, tftp.ACKPacket):
        return [4, p.block]
    if isinstance(p, tftp.ERRORPacket):
        return [5, int(p.error), lib_text(p.message)]
    if isinstance(p, tftp.OACKPacket):
        return [6, opts(p.options)]
    raise TypeError(p)


def lib_text(s):
    """python str -> what the runner returns for the same VS (bytes if all < 256 else U)"""
    if all(ord(c) < 256 for c in s):
        return s.encode('latin-1')
    return lib.U(ord(c) for c in s)


def exc_class(e):
    if isinstance(e, struct.error):
        return 'StructError'
    return type(e).__name__


def impl_parse(b):
    from nobodd.tftp import Packet
    try:
        return ('ok', canon_packet(Packet.from_bytes(b)))
    except Exception as e:
        return ('err', exc_class(e))


def impl_serialize(p):
    try:
        return ('ok', bytes(p))
    except Exception as e:
        return ('err', exc_class(e))


def wire_decode(b):
    """independent decoder of the RFC 1350/2347 wire format (oracle)"""
    op = b[0] * 256 + b[1]
    rest = b[2:]
    if op in (1, 2):
        parts = rest.split(b'\0')
        assert parts[-1] == b'' and len(parts) >= 3 and len(parts) % 2 == 1
        return [op, parts[0], parts[1], [list(x) for x in zip(parts[2:-1:2], parts[3:-1:2])]]
    if op == 3:
        return [op, rest[0] * 256 + rest[1], rest[2:]]
    if op == 4:
        assert len(rest) == 2
        return [op, rest[0] * 256 + rest[1]]
    if op == 5:
        assert rest.endswith(b'\0')
        return [op, rest[0] * 256 + rest[1], rest[2:-1]]
    if op == 6:
        parts = rest.split(b'\0')
        assert parts[-1] == b'' and len(parts) % 2 == 1
        return [op, [list(x) for x in zip(parts[0:-1:2], parts[1:-1:2])]]
    raise AssertionError('opcode')


def gen_packet(rng, big=False):
    from nobodd import tftp
    kind = rng.choice(['RRQ', 'RRQ', 'WRQ', 'DATA', 'DATA', 'ACK', 'ERROR', 'OACK'])
    def options():
        names = ['blksize', 'tsize', 'timeout', 'utimeout', rstr(rng, 1, 6, 'abcxyz-_09'), rstr(rng, 1, 12).lower()]
        d = {}
        for _ in range(rng.choice([0, 0, 1, 2, 3, 5])):
            v = rng.choice([rng.randint(0, 70000), rstr(rng, 0, 8).lower(), str(rng.randint(0, 2 ** 33))])
            d[rng.choice(names)] = v
        return d
    if kind in ('RRQ', 'WRQ'):
        cls = tftp.RRQPacket if kind == 'RRQ' else tftp.WRQPacket
        mode = rng.choice(['octet', 'netascii', 'OCTET', 'NetAscii', 'oCtEt'])
        return cls(rstr(rng, 1, 40), mode, options())
    if kind == 'DATA':
        n = rng.choice([0, 1, 7, 8, 511, 512, 513, 1468]) if not big else rng.choice([65463, 65464])
        return tftp.DATAPacket(rng.choice([1, 2, 255, 256, 65534, 65535, rng.randint(1, 65535)]),
                               bytes(rng.getrandbits(8) for _ in range(n)))
    if kind == 'ACK':
        return tftp.ACKPacket(rng.choice([0, 1, 255, 256, 65535, rng.randint(0, 65535)]))
    if kind == 'ERROR':
        code = rng.randint(0, 8)
        if code != 8 and rng.random() < 0.3:
            return tftp.ERRORPacket(code)
        if rng.random() < 0.15:
            # long messages (an exception text quoting a deep path): beyond a default-size block, up to a large datagram
            return tftp.ERRORPacket(code, (lambda n: rstr(rng, n, n))(rng.choice([500, 507, 508, 509, 511, 512, 513, 1400, 9000])))
        return tftp.ERRORPacket(code, rstr(rng, 0, 30))
    return tftp.OACKPacket(options())


def gen_fuzz(rng):
    """structured malformed datagrams"""
    k = rng.randrange(12)
    rb = lambda n: bytes(rng.getrandbits(8) for _ in range(n))
    if k == 0:
        return rb(rng.choice([0, 1, 2, 3, 4, 5]))
    if k == 1:
        return struct.pack('!H', rng.choice([0, 7, 8, 255, 256, 65535])) + rb(rng.randint(0, 10))
    if k == 2:   # RRQ with hostile strings
        fn = rng.choice([b'a', b'', b'\xff\xfe', 'café'.encode(), b'a\nb', b'\x1fa', b'a' * 300, b'\xed\xa0\x80', b'\xf4\x90\x80\x80', '\U0001F600'.encode()])
        mode = rng.choice([b'octet', b'OCTET', b'netascii', b'mail', b'', b'oct3t', b'octet\xff'])
        tail = rng.choice([b'', b'blksize\x00512\x00', b'BLKSIZE\x00512', b'a\x00\x00', b'\x00\x00', b'x\xffy\x00v\x00',
                           b'k\x00v\xff\x00', b'k\x00V\x00k\x00W\x00K\x00x\x00', b'tsize\x000\x00junk', b'\x1f\x00a\x00',
                           b'a\x00b\x00\x05c\x00d\x00'])
        return b'\0' + bytes([rng.choice([1, 2])]) + fn + b'\0' + mode + b'\0' + tail
    if k == 3:   # DATA / ACK edge blocks and truncations
        return struct.pack('!H', rng.choice([3, 4])) + rb(rng.choice([0, 1])) \
            if rng.random() < 0.4 else struct.pack('!HH', rng.choice([3, 4]), rng.choice([0, 1, 65535])) + rb(rng.choice([0, 3]))
    if k == 4:   # ERROR: unknown codes, NUL handling, non-ascii
        return struct.pack('!HH', 5, rng.choice([0, 1, 8, 9, 255, 65535])) + rng.choice([b'', b'\0', b'msg', b'msg\0', b'msg\0\0\0', b'a\0b\0', b'\xff\0', rb(5)])
    if k == 5:   # OACK with garbage between pairs
        return b'\0\6' + rng.choice([b'', b'a\0b\0', b'\0a\0b\0', b'a\x01\0b\0', b'\x05a\0b\0', b'A\0B\0a\0c\0', b'a\0b', b'ab\0', b'a\0\0', b'\xffa\0b\0', b'a\0\xff\0', b'x\x1fy\0z\0w\0', rb(12)])
    if k == 6:
        return rb(rng.randint(6, 40))
    if k == 7:
        return b'\0' + bytes([rng.randint(1, 6)]) + rb(rng.randint(0, 30))
    if k == 8:   # valid packet truncated or extended
        b = bytes(gen_packet(rng))
        return b[:rng.randint(0, len(b))] if rng.random() < 0.6 else b + rb(rng.randint(1, 4))
    if k == 9:   # case variants (names AND values are folded, in requests and in option acknowledgements alike)
        if rng.random() < 0.4:
            return b'\0\6' + rng.choice([b'BlkSize\0', b'x\0', b'TSIZE\0']) + rng.choice([b'0X10', b'Yes', b'SHA256:DEADBEEF', b'1E3']) + b'\0' + \
                rng.choice([b'', b'other\0MiXeD vAlUe\0'])
        return b'\0' + bytes([rng.choice([1, 2])]) + b'File.TXT\0' + rng.choice([b'OcTeT', b'NETASCII']) + b'\0BlkSize\0' + rng.choice([b'1468', b'0X10', b'1E3']) + \
            b'\0TSIZE\x000\0' + rng.choice([b'', b'Custom\0VaLuE\0'])
    if k == 10:
        return b'\0\1' + rb(rng.randint(1, 10)).replace(b'\0', b'a') + b'\0octet\0' + rb(rng.randint(0, 12))
    return b'\0\6' + rb(rng.randint(0, 20))


def run(ctx, build):
    from nobodd import tftp
    R = ctx.try_runner('Tftp')
    rng = ctx.rng
    n_val = 200000 if ctx.thorough else 1500
    n_fuzz = 1000000 if ctx.thorough else 6000
    if ctx.widen:
        n_val *= 2; n_fuzz *= 2

    # ---- 1. packet values: serialise, parse back ------------------------------------------
    pkts = []
    for i in range(n_val):
        state = rng.getstate()
        try:
            pkts.append(gen_packet(rng, big=(i % 200 == 0)))
        except Exception as e:
            ctx.violation('tftp.construct/raises', f'constructing a legal packet value raised {type(e).__name__}: {e}',
                          dict(api='construct', note='gen_packet with the recorded PRNG state', error=repr(e)))
    canon = [canon_packet(p) for p in pkts]
    mser = R.batch('serialize', canon, chunk=16) if R else [None] * len(canon)
    # boundary values that must always be constructible
    for mk, args in ((tftp.DATAPacket, (65535, b'x')), (tftp.DATAPacket, (1, b'')), (tftp.ACKPacket, (0,)), (tftp.ACKPacket, (65535,)),
                     (tftp.ERRORPacket, (8, '')), (tftp.ERRORPacket, (0, 'x')), (tftp.ERRORPacket, (0, 'm' * 511)), (tftp.ERRORPacket, (1, 'n' * 512)),
                     (tftp.ERRORPacket, (2, 'path/' * 300))):
        try:
            q = mk(*args)
            b = bytes(q)
            r = tftp.Packet.from_bytes(b)
            if type(r) is not mk or any(getattr(r, f) != getattr(q, f) for f in mk.__slots__):
                ctx.violation('tftp.roundtrip/boundary', f'{mk.__name__}{args} does not survive the round trip: {r!r}', dict(api='boundary', args=list(map(repr, args))))
        except Exception as e:
            ctx.violation('tftp.roundtrip/boundary', f'{mk.__name__}{args} raised {type(e).__name__}: {e}', dict(api='boundary', args=list(map(repr, args))))
    for p, c, ms in zip(pkts, canon, mser):
        got = impl_serialize(p)
        m = R.unres(ms) if R else got
        nontriv = len(got[1]) > 4 if got[0] == 'ok' else True
        ctx.case(got[1] if got[0] == 'ok' else repr(c), nontriv, 'serialize-' + type(p).__name__)
        if got != m:
            ctx.violation('tftp.serialize/model-mismatch', f'bytes({p!r}) = {got} but model says {m}',
                          dict(api='serialize', packet=c, impl=got, model=m))
            continue
        if got[0] != 'ok':
            ctx.violation('tftp.serialize/raises', f'bytes({p!r}) raised {got[1]} for a printable-ASCII packet',
                          dict(api='serialize', packet=c, impl=got))
            continue
        b = got[1]
        # oracle: wire format by the independent decoder
        try:
            w = wire_decode(b)
            exp = None
            if c[0] in (1, 2):
                exp = [c[0], c[1], c[2], [[k, (str(v[1]).encode() if v[0] == 1 else v[1])] for k, v in c[3]]]
            elif c[0] == 6:
                exp = [6, [[k, (str(v[1]).encode() if v[0] == 1 else v[1])] for k, v in c[1]]]
            else:
                exp = c
            if w != exp:
                raise AssertionError(f'decoded {w} expected {exp}')
        except (AssertionError, IndexError) as e:
            ctx.violation('tftp.serialize/wire-format', f'bytes({p!r}) = {b!r} violates the wire format: {e}',
                          dict(api='wire', packet=c, bytes=b))
        # oracle: parse(serialise(p)) == p
        try:
            q = tftp.Packet.from_bytes(b)
            same = type(q) is type(p) and all(
                (dict((k, str(v)) for k, v in getattr(q, f).items()) == dict((k, str(v)) for k, v in getattr(p, f).items()))
                if f == 'options' else getattr(q, f) == getattr(p, f)
                for f in type(p).__slots__ + (('filename', 'mode', 'options') if isinstance(p, tftp.WRQPacket) else ()))
        except Exception as e:
            same, q = False, repr(e)
        if not same:
            ctx.violation('tftp.roundtrip/parse-serialize', f'parse(bytes({p!r})) = {q!r}',
                          dict(api='roundtrip', packet=c, bytes=b))
    ctx.sample(dict(api='serialize', packet=canon_packet(tftp.RRQPacket('config.txt', 'octet', {'blksize': 1468, 'tsize': 0}))))

    # ---- 2. datagrams: parse, re-serialise, parse again ----------------------------------------
    dgs = [gen_fuzz(rng) for _ in range(n_fuzz)] + [bytes(p) for p in pkts[:500]]
    mp = R.batch('parse', dgs, chunk=32) if R else [None] * len(dgs)
    kinds = {}
    for d, r in zip(dgs, mp):
        got = impl_parse(d)
        m = R.unres(r) if R else got
        kinds[got[0] if got[0] == 'ok' else got[1]] = kinds.get(got[0] if got[0] == 'ok' else got[1], 0) + 1
        ctx.case(d, len(d) > 2, 'parse-' + (got[1] if got[0] == 'err' else 'ok'))
        if got != m:
            ctx.violation('tftp.parse/model-mismatch', f'Packet.from_bytes({d!r}) = {got} but model says {m}',
                          dict(api='parse', datagram=d, impl=got, model=m))
            continue
        if got[0] == 'ok':
            p = tftp.Packet.from_bytes(d)
            s = impl_serialize(p)
            if s[0] == 'ok':
                again = impl_parse(s[1])
                if again != got:
                    ctx.violation('tftp.roundtrip/serialize-parse',
                                  f'{d!r} parses to {got[1]}, re-serialises to {s[1]!r} which parses to {again}',
                                  dict(api='reparse', datagram=d, first=got, second=again))
                # block numbers, error codes, payload preserved; case folded
                if isinstance(p, (tftp.DATAPacket, tftp.ACKPacket)) and p.block != d[2] * 256 + d[3]:
                    ctx.violation('tftp.parse/block', f'{d!r} parsed with block {p.block}', dict(api='parse', datagram=d))
                if isinstance(p, tftp.DATAPacket) and p.data != d[4:]:
                    ctx.violation('tftp.parse/payload', f'{d!r} payload changed', dict(api='parse', datagram=d))
                if isinstance(p, tftp.ERRORPacket) and int(p.error) != d[2] * 256 + d[3]:
                    ctx.violation('tftp.parse/error-code', f'{d!r} error code changed', dict(api='parse', datagram=d))
                if isinstance(p, tftp.RRQPacket):
                    if p.mode != p.mode.lower() or any(k != k.lower() or v != v.lower() for k, v in p.options.items()):
                        ctx.violation('tftp.parse/case-folding', f'{d!r}: mode/options not case-folded: {p!r}',
                                      dict(api='parse', datagram=d))
                    fn = d[2:].split(b'\0')[0]
                    if p.filename.encode('utf-8') != fn:
                        ctx.violation('tftp.parse/filename', f'{d!r}: filename altered: {p.filename!r}',
                                      dict(api='parse', datagram=d))
    ctx.extra['parse_outcomes'] = kinds
    ctx.sample(dict(api='parse', datagram=b'\0\1File.TXT\0OcTeT\0BlkSize\x001468\0'))

    # ---- 3. helper functions shared with the other TFTP properties ---------------------------------
    if R is None:
        return
    ints = [' 12 ', '1_000', '1__0', '_1', '1_', '+5', '-5', '', ' ', '0x10', '007', '1e3', '1.5', '\t8\n', '\x1c8',
            '8\x1f', '--1', '+-1', '٣', '1 2', '0_0', '+', '-', '00', '-0', '65464', str(2 ** 70)] + \
           [rstr(rng, 0, 5, '0123456789_+- \tx') for _ in range(300)]
    for s in ints:
        try:
            want = [int(s)]
        except ValueError:
            want = []
        if any(ord(c) > 127 for c in s):
            continue
        got = R.call('py_int', s)
        ctx.case(('int', s), True, 'py_int')
        if got != want:
            ctx.violation('model/py_int', f'model int({s!r}) = {got}, CPython {want}', dict(api='py_int', s=s))
    for z in [0, 1, 9, 10, 99, 100, 65464, 2 ** 32, 2 ** 64 + 1, -1, -10] + [rng.randint(-10 ** 12, 10 ** 12) for _ in range(100)]:
        got = R.call('str_of_Z', lib.Zint(z))
        ctx.case(('str', z), True, 'str_of_Z')
        if got != str(z).encode():
            ctx.violation('model/str_of_Z', f'model str({z}) = {got}', dict(api='str_of_Z', z=z))
    for _ in range(1500 if not ctx.thorough else 60000):
        if rng.random() < 0.5:
            b = ''.join(chr(rng.choice([0x41, 0x7f, 0x80, 0x7ff, 0x800, 0xd7ff, 0xe000, 0xffff, 0x10000, 0x10ffff, rng.randint(0, 0x10ffff)]))
                        for _ in range(rng.randint(0, 4))).encode('utf-8', 'surrogatepass')
        else:
            b = bytes(rng.choice([0x41, 0x80, 0xbf, 0xc0, 0xc1, 0xc2, 0xdf, 0xe0, 0xed, 0xef, 0xf0, 0xf4, 0xf5, 0xff, 0x9f, 0xa0, 0x8f, 0x90])
                      for _ in range(rng.randint(0, 5)))
        try:
            want = [lib_text(b.decode('utf-8'))]
        except UnicodeDecodeError:
            want = []
        got = R.call('utf8', b)
        ctx.case(('utf8', b), True, 'utf8')
        if got != want and not (got and want and list(got[0]) == list(want[0])):
            ctx.violation('model/utf8', f'model utf8({b!r}) = {got}, CPython {want}', dict(api='utf8', b=b))


def replay(ctx, obj):
    print(json.dumps(obj, indent=1)[:3000])
    return False
