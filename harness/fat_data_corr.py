"""Data half of C04 (and C03's seek + read): the extracted Coq model coq/FatData (FAT table +
data clusters + one open file: FatFile.write / _write1 / truncate / seek / read / readall) run
side by side with the REAL nobodd code on small synthesised FAT12/16/32 volumes.

A file is opened through the public API ((fs.root / name).open(mode, buffering=0)) and driven
with random seeks, writes, truncates and reads.  After EVERY operation the result / errno,
tell(), the size and first cluster recorded in the directory entry (parsed from the raw image),
the chain (walked in the raw FAT), every FAT entry of both copies, the FSInfo counters and the
bytes of every data cluster are compared with the model's trace.  Oracles evaluated on the
implementation alone: the content (raw chain walk cut at the recorded size, and a fresh
open('rb').read()) equals a plain Python bytearray model with holes reading as zeros; every
other file and every cluster outside the file's old and new chain is byte-identical; ENOSPC
only when the data area really is full, leaving a consistent file (a prefix of the buffer
written).  All randomness comes from ctx.rng.  `run(ctx)`, `replay(obj)`."""
import errno, random, struct, warnings
import fatimg

SPEC_THEOREMS = {
    'FD_step_refines': 'Inv s, step s op = (s2, Ok out) -> Inv s2 and spec_step cs (abs s) op = (abs s2, Ok out)',
    'FD_step_enospc': 'step raises only ENOSPC; Inv still holds; truncate: content unchanged; write: content unchanged '
                      '(padding failed) or a strict prefix of the buffer written, position after it',
    'FD_run_refines': 'every operation list: outputs related to the byte-string specification, Inv at the end',
    'FD_holes_read_zero': 'seek beyond EOF + write: bytes between the old size and the position are 0',
    'FD_other_clusters_untouched': 'clusters outside the old and new chain keep bytes and FAT entries',
}
TRUSTED = [
    'Coq 8.16.1 kernel; vm_compute only in the Examples of FatData/ProofsEx.v',
    'extraction (ExtrOcamlBasic), runner/driver.ml, OCaml',
    'abstraction: FAT entries as values (byte level: FatTable / C03), directory entry reduced to size + first cluster '
    '(its bytes live in the directory, whose clusters are excluded from the byte comparison), timestamps, dirty bit, '
    'locks and the 32-bit size limit not modelled',
    'raw reads stop at a cluster boundary (io.RawIOBase.read = one readinto); io.Buffered* is CPython',
    'side conditions of the theorems: cs > 0, len(clusters) + 2 <= max_valid + 1, clusters all cs bytes long',
    'harness/fatimg.py image synthesis',
]

ENOSPC = 'ENOSPC'
NAME, ALIAS = 'DATA.BIN', (b'DATA    ', b'BIN')
MAXV = {12: 0xFEF, 16: 0xFFEF, 32: 0x0FFFFFEF}


def exc_name(e):
    if isinstance(e, OSError) and e.errno == errno.ENOSPC:
        return ENOSPC
    if isinstance(e, OSError):
        return 'OSError'
    return type(e).__name__


def payload(k, n):
    """deterministic non-zero bytes (holes must be distinguishable from data)"""
    return bytes(((k * 131 + i * 7) % 251) + 1 for i in range(n))


class Vol:
    def __init__(self, scn):
        from nobodd.fs import FatFileSystem
        self.scn = scn
        rng = random.Random(scn['seed'])
        g = fatimg.Geometry(scn['fat_type'], scn['n_clusters'], spc=scn['spc'],
                            extra_fat_entries=scn['extra'], fsinfo=scn.get('fsinfo', True))
        self.g, self.cs, self.bits = g, g.cs, g.bits
        b = fatimg.Builder(g, rng, fragment=scn['fragment'])
        self.b, self.buf = b, b.img
        for c in b.free:                                   # stale non-zero bytes everywhere
            o = b.coff(c)
            self.buf[o:o + g.cs] = bytes((x % 255) + 1 for x in rng.randbytes(g.cs))
        self.content0 = bytes((x % 255) + 1 for x in rng.randbytes(scn['init_size']))
        self.dir_clusters = set(b.dirs[id(b.tree)]['chain'] or [])
        if scn.get('dirmode'):
            node = b.add(b.tree, 'SUB', (b'SUB     ', b'   '), is_dir=True, lfn=False)
            self.start = node['cluster']
        else:
            b.add(b.tree, NAME, ALIAS, data=self.content0, lfn=False)
        self.entry_off = b._dir_slot_offset(b.tree, len(b.dirs[id(b.tree)]['slots']) - 1)
        self.other = rng.randbytes(rng.randint(1, 2 * g.cs))
        other = b.add(b.tree, 'OTHER.BIN', (b'OTHER   ', b'BIN'), data=self.other, lfn=False)
        self.other_chain = other['chain']
        k = max(0, len(b.free) - scn['free'])
        b._alloc(k)                                        # filler: in use, owned by nobody
        if g.fat_type == 'fat32' and g.fsinfo:
            b.finish()
            if scn.get('info') is not None:
                la, fc = scn['info']
                struct.pack_into('<II', self.buf, g.info_sector * g.bps + 488, fc, la)
        with warnings.catch_warnings():
            warnings.simplefilter('ignore')
            self.fs = FatFileSystem(memoryview(self.buf))
        assert len(self.fs.clusters) == g.n_clusters and self.fs.clusters.size == g.cs
        self.nfat = len(self.fs.fat)

    # ---- raw views of the image (no nobodd code)
    def entry(self):
        o = self.entry_off
        lo, size = struct.unpack_from('<HI', self.buf, o + 26)
        hi = struct.unpack_from('<H', self.buf, o + 20)[0] if self.bits == 32 else 0
        return (hi << 16) | lo, size

    def table(self, copy=0):
        return [self.b.get(i, copy) for i in range(self.nfat)]

    def chain(self, start, t=None):
        t = t or self.table()
        out = []
        while 2 <= start <= MAXV[self.bits] and start < len(t) and len(out) <= len(t):
            out.append(start)
            start = t[start]
        return out

    def clusters(self):
        o, cs = self.g.data_off, self.cs
        return [bytes(self.buf[o + i * cs:o + (i + 1) * cs]) for i in range(self.g.n_clusters)]

    def info(self):
        i = getattr(self.fs.fat, '_info', None)
        return None if i is None else [i.last_alloc, i.free_clusters]

    def free_count(self):
        t = self.table()
        return sum(1 for c in range(3, min(self.g.n_clusters + 2, len(t))) if t[c] == 0)

    def file_state(self):
        """(map, size) of the target as recorded on disk"""
        if self.scn.get('dirmode'):
            m = self.chain(self.start)
            return m, len(m) * self.cs
        first, size = self.entry()
        return self.chain(first), size

    def raw_content(self):
        m, size = self.file_state()
        cl = self.clusters()
        return b''.join(cl[c - 2] for c in m)[:size]

    def open(self, mode):
        if self.scn.get('dirmode'):
            return self.fs.open_file(self.start, 'r+b')
        return (self.fs.root / NAME).open(mode, buffering=0)

    def snapshot(self, f):
        first, size = self.entry()
        return {'tbl': self.table(), 'tbl1': self.table(1) if self.g.nfats > 1 else None, 'info': self.info(),
                'first': first, 'size': size, 'map': list(f._map), 'pos': f.tell(), 'data': self.clusters()}


# ------------------------------------------------------------------ operations
def wire_op(op):
    k = op[0]
    if k == 'seek':
        from lib import Zint
        return [0, op[1], Zint(op[2])]
    if k == 'write':
        return [1, payload(op[1], op[2])]
    if k == 'truncate':
        return [2, None if op[1] is None else [op[1]]]
    if k == 'read':
        return [3, op[1]]
    return [4]


def do_op(f, op):
    """run on the implementation; canonical result ('num', n) | ('bytes', b) | ('err', name)"""
    k = op[0]
    try:
        if k == 'seek':
            return ('num', f.seek(op[2], op[1]))
        if k == 'write':
            return ('num', f.write(payload(op[1], op[2])))
        if k == 'truncate':
            return ('num', f.truncate(op[1]))
        if k == 'read':
            return ('bytes', f.read(op[1]))
        return ('bytes', f.readall())
    except Exception as e:                  # noqa: BLE001
        return ('err', exc_name(e))


class Ref:
    """the oracle: a bytearray and a position"""
    def __init__(self, content, pos=0):
        self.b, self.pos = bytearray(content), pos

    def copy(self):
        return Ref(self.b, self.pos)

    def write(self, data):
        if self.pos > len(self.b):
            self.b.extend(bytes(self.pos - len(self.b)))
        self.b[self.pos:self.pos + len(data)] = data
        self.pos += len(data)

    def truncate(self, n):
        n = self.pos if n is None else n
        if n < len(self.b):
            del self.b[n:]
        else:
            self.b.extend(bytes(n - len(self.b)))
        return n


def oracle_step(ref, op, res, v, before_free, tell, nmap):
    """update the bytearray model by what the call reported; returns complaints"""
    out, k = [], op[0]
    if k == 'seek':
        t = {0: 0, 1: ref.pos, 2: len(ref.b)}.get(op[1])
        if t is None:
            if res != ('err', 'ValueError'):
                out.append(('fs.data/seek-whence', f'{op}: {res} for an invalid whence'))
        elif t + op[2] < 0:
            if res != ('err', 'OSError'):
                out.append(('fs.data/seek-negative', f'{op}: {res} for a negative target'))
        else:
            ref.pos = t + op[2]
            if res != ('num', ref.pos):
                out.append(('fs.data/seek-result', f'{op}: returned {res}, expected {ref.pos}'))
    elif k in ('read', 'readall'):
        rest = bytes(ref.b[ref.pos:])
        if res[0] != 'bytes':
            out.append(('fs.data/read-exception', f'{op}: {res}'))
        elif k == 'readall':
            if res[1] != rest:
                out.append(('fs.data/readall-content', f'{op} at {ref.pos}: {len(res[1])} bytes differ from the content'))
            ref.pos = max(ref.pos, len(ref.b))
        else:
            got = res[1]
            if got != rest[:len(got)] or len(got) > op[1] or (not got and op[1] and rest):
                out.append(('fs.data/read-content', f'{op} at {ref.pos}: {got[:16]!r}... is not a non-empty prefix of the content there'))
            ref.pos += len(got)
    elif k == 'truncate':
        if res[0] == 'num':
            n = ref.truncate(op[1])
            if res[1] != n:
                out.append(('fs.data/truncate-result', f'{op}: returned {res[1]}, expected {n}'))
        elif res == ('err', ENOSPC):
            n = ref.pos if op[1] is None else op[1]
            need = max(1, -(-n // v.cs)) - max(-(-len(ref.b) // v.cs), 0)
            if before_free >= max(need, 1):
                out.append(('fs.data/enospc-with-room', f'{op}: ENOSPC with {before_free} free clusters, {need} needed'))
        else:
            out.append(('fs.data/truncate-exception', f'{op}: {res}'))
    elif k == 'write':
        data = payload(op[1], op[2])
        if res[0] == 'num':
            if res[1] != len(data):
                out.append(('fs.data/short-write', f'{op}: wrote {res[1]} of {len(data)}'))
            ref.write(data)
        elif res == ('err', ENOSPC):
            kk = tell - ref.pos
            pad_need = max(1, -(-ref.pos // v.cs)) - nmap if ref.pos > len(ref.b) else 0
            if pad_need > before_free:
                if kk != 0:                             # the padding truncate failed: nothing changed
                    out.append(('fs.data/enospc-position', f'{op}: position moved by {kk} although padding failed'))
            elif 0 <= kk < len(data):
                ref.write(data[:kk])
                if v.free_count() != 0:
                    out.append(('fs.data/enospc-with-room', f'{op}: ENOSPC with {v.free_count()} clusters still free'))
            else:
                out.append(('fs.data/enospc-position', f'{op}: position moved by {kk} on a failed write of {len(data)}'))
        else:
            out.append(('fs.data/write-exception', f'{op}: {res}'))
    return out


# ------------------------------------------------------------------ generation
def gen_scenario(rng):
    ft = rng.choice(['fat12', 'fat16', 'fat32', 'fat32'])
    spc = rng.choice([1, 1, 2])
    cs = 512 * spc
    n = rng.randint(8, 40)
    room = n - (3 if ft == 'fat32' else 2)               # root (fat32) + OTHER.BIN
    init_cl = rng.choice([0, 0, 1, 2, 3, rng.randint(0, max(0, room // 2))])
    init_cl = min(init_cl, max(0, room - 2))
    init_size = 0 if init_cl == 0 else rng.choice([init_cl * cs, (init_cl - 1) * cs + rng.randint(1, cs)])
    scn = {'fat_type': ft, 'n_clusters': n, 'spc': spc, 'extra': rng.choice([0, 1, 7, 40]), 'fsinfo': True, 'info': None,
           'fragment': rng.random() < 0.6, 'seed': rng.randrange(1 << 30), 'init_size': init_size,
           'free': rng.choice([0, 1, 2, 3, 5, 8, rng.randint(0, n), rng.randint(0, n), n, n]), 'dirmode': rng.random() < 0.06}
    if scn['dirmode']:
        scn['init_size'] = 0
    if ft == 'fat32':
        m = rng.randrange(6)
        if m == 0:
            scn['fsinfo'] = False
        elif m == 1:
            scn['info'] = [rng.randint(0, n + 12), 0xFFFFFFFF]
        elif m == 2:
            scn['info'] = [rng.randint(2, n + 1), rng.randint(0, 3)]
    return scn


def gen_op(rng, v, size, pos, nmap, readable):
    cs = v.cs
    avail = v.free_count() + nmap
    near = lambda x: max(0, x + rng.choice([-cs - 1, -cs, -2, -1, 0, 0, 1, 2, cs, cs + 1]))   # noqa: E731
    r = rng.random()
    if r < 0.27:
        w = rng.choice([0, 0, 0, 1, 2, 2, 3])
        if w == 0:
            off = rng.choice([0, size, near(size), rng.randint(0, size + 2 * cs), (size // cs) * cs,
                              rng.randint(0, max(0, size)), -rng.randint(1, 5)])
        elif w == 1:
            off = rng.choice([0, 1, -1, cs, -cs, rng.randint(-pos - 2, 2 * cs)])
        else:
            off = rng.choice([0, 0, -1, 1, cs, 2 * cs + 3, -rng.randint(0, size + 2), rng.randint(-size, cs)])
        return ('seek', w, off)
    if r < 0.60:
        room = max(0, avail * cs - pos)
        if rng.random() < 0.14:                          # up to / just beyond what the volume can hold
            n = rng.choice([rng.randint(0, room + cs), room, room + 1])
        else:
            n = rng.choice([0, 1, cs - 1, cs, cs + 1, 2 * cs, rng.randint(0, 3 * cs), rng.randint(0, 3 * cs),
                            max(0, cs - pos % cs), rng.randint(0, cs)])
            if rng.random() < 0.5:
                n = min(n, room)
        return ('write', rng.randrange(1 << 16), n)
    if r < 0.78:
        t = rng.choice([None, None, 0, size, near(size), near(pos), rng.randint(0, avail * cs), rng.randint(0, size),
                        rng.randint(0, avail) * cs, rng.randint(0, size), size // 2,
                        (avail + 1) * cs + rng.randint(0, cs)])
        return ('truncate', t)
    if not readable:
        return ('seek', 0, rng.randint(0, size + cs))
    if r < 0.93:
        return ('read', rng.choice([0, 1, cs, cs - 1, cs + 1, rng.randint(0, 3 * cs), size]))
    return ('readall',)


MODES = ['r+b', 'r+b', 'r+b', 'r+b', 'w+b', 'wb', 'a+b', 'ab']


def model_run(R, v, pre, ops):
    m, size = pre['map'], pre['size']
    arg = [v.bits, v.cs, 0 if v.scn.get('dirmode') else 1, pre['info'], pre['tbl'], pre['data'], m, size, 0,
           [wire_op(o) for o in ops]]
    trace, final = R.call('run', arg)
    return trace, final


def canon_model_result(r):
    if r[0] == 0:
        kind, val = r[1]
        return ('num', val) if kind == 0 else ('bytes', bytes(val))
    return ('err', r[1].decode())


def run_session(ctx, R, v, mode, nops, counters, replay, ref):
    """one open ... close of the target.  Returns False when the model diverged."""
    rng = ctx.rng
    m0, size0 = v.file_state()
    pre = {'tbl': v.table(), 'info': v.info(), 'data': v.clusters(), 'map': m0, 'size': size0}
    other0 = [pre['data'][c - 2] for c in v.other_chain]
    dirmode = v.scn.get('dirmode')
    ops, snaps, results = [], [], []
    # what open() itself does, as operations of the model
    implicit = [('truncate', None)] if 'w' in mode else [('seek', 2, 0)] if 'a' in mode else []
    try:
        f = v.open(mode)
    except Exception as e:                  # noqa: BLE001
        ctx.violation('fs.data/open-exception', f'open({mode!r}): {exc_name(e)}: {e}', dict(replay))
        return False
    readable = f.readable()
    sess = {'mode': mode, 'ops': ops}
    replay['sessions'].append(sess)
    for o in implicit:
        ops.append(list(o))
        results.append(('num', 0 if o[0] == 'truncate' else size0))
        snaps.append(v.snapshot(f))
        if o[0] == 'truncate':
            ref.pos = 0
            ref.truncate(None)
        else:
            ref.pos = len(ref.b)
    complaints = []
    for _ in range(nops):
        sn = snaps[-1] if snaps else None
        size = f._get_size()
        op = gen_op(rng, v, size, f.tell(), len(f._map), readable)
        ops.append([None if x is None else x for x in op])
        free_before, nmap_before = v.free_count(), len(f._map)
        pos_before = f.tell()
        res = do_op(f, op)
        results.append(res)
        snaps.append(v.snapshot(f))
        counters['steps'] += 1
        kind = op[0] + ('' if res[0] != 'err' else ':' + res[1])
        if op[0] == 'write':
            if pos_before > size:
                ctx.stat('write-into-hole')
            if pos_before % v.cs + op[2] > v.cs:
                ctx.stat('write-straddles-clusters')
            if res[0] == 'err' and f.tell() > pos_before:
                ctx.stat('write-enospc-partial')
        elif op[0] == 'truncate' and res[0] == 'num':
            ctx.stat('truncate-grow' if res[1] > size else 'truncate-shrink' if res[1] < size else 'truncate-same')
        ctx.case((repr(v.scn), len(replay['sessions']), len(ops), repr(op)), True, kind)
        if not dirmode:
            for sig, what in oracle_step(ref, op, res, v, free_before, snaps[-1]['pos'], nmap_before):
                complaints.append((sig, what, len(ops)))
            snap = snaps[-1]
            raw = v.raw_content()
            if raw != bytes(ref.b):
                i = next((i for i, (a, b) in enumerate(zip(raw, ref.b)) if a != b), min(len(raw), len(ref.b)))
                complaints.append(('fs.data/content/' + op[0],
                                   f'after {op} -> {res[:1]}: file holds {len(raw)} bytes, expected {len(ref.b)}; '
                                   f'first difference at byte {i} (got {raw[i:i+4].hex()}, expected {bytes(ref.b[i:i+4]).hex()})',
                                   len(ops)))
            if snap['pos'] != ref.pos:
                complaints.append(('fs.data/position', f'after {op}: tell() {snap["pos"]}, expected {ref.pos}', len(ops)))
            if [snap['data'][c - 2] for c in v.other_chain] != other0:
                complaints.append(('fs.data/other-file-changed', f'after {op}: OTHER.BIN changed', len(ops)))
            if v.chain(snap['first'], snap['tbl']) != snap['map']:
                complaints.append(('fs.data/entry-chain', f'after {op}: directory entry chain '
                                   f'{v.chain(snap["first"], snap["tbl"])} but open map {snap["map"]}', len(ops)))
            # frame: clusters outside the old and the new chain keep their bytes
            prev = snaps[-2] if len(snaps) > 1 else {'map': m0, 'data': pre['data']}
            keep = set(prev['map']) | set(snap['map']) | v.dir_clusters
            ch = [c + 2 for c, (a, b) in enumerate(zip(prev['data'], snap['data'])) if a != b and c + 2 not in keep]
            if ch:
                complaints.append(('fs.data/foreign-cluster-written', f'after {op}: clusters {ch[:5]} changed', len(ops)))
        if complaints or len(ctx.violations) >= 20:
            break
    for sig, what, n in complaints[:3]:
        rp = dict(replay, sessions=[dict(s, ops=list(s['ops'])) for s in replay['sessions']])
        ctx.violation(sig, what, rp)
    ok = True
    if R is not None and ops:
        trace, final = model_run(R, v, pre, ops)
        data = list(pre['data'])
        for i, (t, res, sn, op) in enumerate(zip(trace, results, snaps, ops)):
            mres, tbl, info, mp, size, pos, diffs = t
            for idx, b in diffs:
                data[idx] = bytes(b)
            rp = dict(replay, sessions=[dict(s, ops=list(s['ops'])) for s in replay['sessions'][:-1]]
                      + [{'mode': mode, 'ops': ops[:i + 1]}])
            got = canon_model_result(mres)
            implicit_op = i < len(implicit)
            if not implicit_op and got != res:
                ctx.violation('fs.data/outcome-differs/' + op[0],
                              f'{op}: implementation {res[0]} {str(res[1])[:40]}, model {got[0]} {str(got[1])[:40]}', rp)
                ok = False
                break
            diff = []
            if list(tbl) != sn['tbl']:
                diff.append('fat')
            if sn['tbl1'] is not None and sn['tbl1'] != sn['tbl']:
                diff.append('fat-copies')
            if (list(info) if info else None) != sn['info']:
                diff.append('fsinfo')
            if list(mp) != sn['map']:
                diff.append('map')
            if not dirmode and size != sn['size']:
                diff.append('size')
            if pos != sn['pos']:
                diff.append('pos')
            bad = [c + 2 for c, (a, b) in enumerate(zip(data, sn['data'])) if a != b and c + 2 not in v.dir_clusters]
            if bad:
                diff.append('clusters %s' % bad[:6])
            if diff:
                ctx.violation('fs.data/state-differs/' + op[0],
                              f'{op} -> {res[0]}: {diff} differ (impl size {sn["size"]} map {sn["map"]} pos {sn["pos"]}; '
                              f'model size {size} map {list(mp)} pos {pos})', rp)
                ok = False
                break
        counters['model_ops'] += len(trace)
    try:
        f.close()
    except Exception as e:                  # noqa: BLE001
        ctx.violation('fs.data/close-exception', f'close: {exc_name(e)}: {e}', dict(replay))
        return False
    if not dirmode:
        # the public view after close: a fresh handle reads exactly the bytearray
        try:
            with v.open('rb') as g:
                got = g.readall()
        except Exception as e:              # noqa: BLE001
            ctx.violation('fs.data/read-after-close', f'open(rb).readall() after close: {exc_name(e)}: {e}', dict(replay))
            return False
        if got != bytes(ref.b) or v.raw_content() != bytes(ref.b):
            ctx.violation('fs.data/content-after-close', f'after close: {len(got)} bytes read, expected {len(ref.b)} '
                          f'(or bytes differ)', dict(replay))
            ok = False
        ref.pos = 0
    return ok and not complaints


def run_scenario(ctx, R, scn, counters):
    v = Vol(scn)
    replay = {'scenario': scn, 'sessions': []}
    ref = Ref(v.content0)
    for _ in range(ctx.rng.randint(1, 3)):
        mode = 'r+b' if scn.get('dirmode') else ctx.rng.choice(MODES)
        if not run_session(ctx, R, v, mode, ctx.rng.randint(6, 28), counters, replay, ref):
            break
        if len(ctx.violations) >= 20:
            break
    ctx.sample({'scenario': scn, 'sessions': [dict(s, ops=s['ops'][:8]) for s in replay['sessions'][:1]]}, limit=3)


def run(ctx, build=None):
    R = ctx.try_runner('FatData')
    total = 6000 if ctx.thorough else 1200
    if getattr(ctx, 'widen', False):
        total *= 2
    counters = {'steps': 0, 'model_ops': 0}
    while counters['steps'] < total and len(ctx.violations) < 20:
        run_scenario(ctx, R, gen_scenario(ctx.rng), counters)
    ctx.stat('model_ops', counters['model_ops'])
    return counters['steps']


def replay(obj):
    """re-run a recorded history on the implementation alone; returns the oracle's complaints"""
    v = Vol(obj['scenario'])
    ref = Ref(v.content0)
    out = []
    for s in obj['sessions']:
        f = v.open(s['mode'])
        for op in s['ops']:
            op = tuple(op)
            before, nmap = v.free_count(), len(f._map)
            res = do_op(f, op)
            out += [(sig, what) for sig, what in oracle_step(ref, op, res, v, before, f.tell(), nmap)]
            if v.raw_content() != bytes(ref.b):
                out.append(('fs.data/content/' + op[0], f'after {op}: content differs from the bytearray model'))
        f.close()
        ref.pos = 0
    return out
