#!/usr/bin/env python3
"""Apply each seeded change under /verif/seeded/<id>/patch.diff to /repo, run the quick checks of
the properties it is said to break, record whether a VIOLATION was reported, undo the change.
Usage: seedtest.py [id ...]   (default: all).  Results -> seeded/RESULTS.json / RESULTS.md"""
import json, os, subprocess, sys, time, glob
V = os.environ.get('SEED_VERIF', '/verif')
REPO = os.environ.get('NOBODD_REPO', '/repo')
OUT = os.environ.get('SEED_OUT', V + '/seeded')
def sh(cmd, **kw):
    return subprocess.run(cmd, shell=True, capture_output=True, text=True, **kw)
def main():
    ids = sys.argv[1:] or sorted(os.path.basename(d) for d in glob.glob(V + '/seeded/*') if os.path.isdir(d))
    path = OUT + '/RESULTS.json'
    results = json.load(open(path)) if os.path.exists(path) else {}
    assert sh(f'git -C {REPO} status --porcelain -- nobodd').stdout.strip() == '', 'repo is not clean'
    for i in ids:
        d = f'{V}/seeded/{i}'
        meta = json.load(open(d + '/meta.json'))
        props = meta['property'] if isinstance(meta['property'], list) else [meta['property']]
        r = sh(f'git -C {REPO} apply {d}/patch.diff')
        if r.returncode:
            results[i] = {'error': 'patch does not apply: ' + r.stderr[:200]}
            print(i, 'PATCH DOES NOT APPLY'); continue
        try:
            res = {}
            for p in props:
                t0 = time.time()
                c = sh(f'cd {V} && ./check {p} --tier quick', timeout=1800)
                lines = [l for l in c.stdout.splitlines() if l.startswith('VIOLATION')]
                what = [l for l in c.stdout.splitlines() if l.startswith('#')]
                res[p] = dict(exit=c.returncode, caught=bool(lines), concrete=any('no-failing-input-found' not in l for l in lines),
                              first=(what[0][:300] if what else ''), secs=round(time.time() - t0, 1))
                print(i, p, 'CAUGHT' if lines else 'MISSED', '(concrete input)' if res[p]['concrete'] else '(proof/tie only)' if lines else '', res[p]['first'][:140])
            results[i] = dict(summary=meta.get('summary', ''), checks=res)
        finally:
            sh(f'git -C {REPO} checkout -- .')
        json.dump(results, open(path, 'w'), indent=1)
    with open(OUT + '/RESULTS.md', 'w') as f:
        f.write('| seeded change | property | caught | how | first report |\n|---|---|---|---|---|\n')
        for i, r in sorted(results.items()):
            for p, c in r.get('checks', {}).items():
                f.write(f"| {i} | {p} | {'yes' if c['caught'] else 'NO'} | {'concrete input' if c['concrete'] else ('broken proof/tie' if c['caught'] else '-')} | {c['first'][:160].replace('|', '/')} |\n")
if __name__ == '__main__':
    main()
