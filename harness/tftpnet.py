"""An RFC 1350/2347 receiving client and an adversarial network (loss, duplication,
delay, reordering, foreign packets, timeouts) around tftpdrv.Session."""
import struct
from tftpdrv import Session, addr_of


class RfcClient:
    def __init__(self, cid, filename, mode='octet', options=None):
        self.cid, self.filename, self.mode = cid, filename, mode
        self.options = dict(options or {})
        self.B = 512
        self.expect = 1
        self.buf = bytearray()
        self.finished = False
        self.aborted = None
        self.tid = None
        self.oack = None
        self.last_sent = None

    def rrq(self):
        b = b'\0\1' + self.filename.encode() + b'\0' + self.mode.encode() + b'\0'
        for k, v in self.options.items():
            b += k.encode() + b'\0' + str(v).encode() + b'\0'
        self.last_sent = (0, b)
        return b

    def on_datagram(self, from_tid, d):
        """returns list of (dest_tid, bytes)"""
        if self.finished or self.aborted is not None:
            return []
        if self.tid is None:
            if from_tid == 0:
                if d[:2] == b'\0\5':
                    self.aborted = d
                return []
            self.tid = from_tid
        if from_tid != self.tid:
            return []
        op = d[0] * 256 + d[1] if len(d) >= 2 else -1
        if op == 6 and self.expect == 1 and self.oack is None:
            parts = d[2:].split(b'\0')
            self.oack = dict(zip((p.decode() for p in parts[0:-1:2]), (p.decode() for p in parts[1:-1:2])))
            if 'blksize' in self.oack:
                self.B = int(self.oack['blksize'])
            self.last_sent = (self.tid, b'\0\4\0\0')
            return [self.last_sent]
        if op == 6:
            return [(self.tid, b'\0\4\0\0')]
        if op == 3 and len(d) >= 4:
            k = d[2] * 256 + d[3]
            if k == self.expect:
                self.buf += d[4:]
                self.expect += 1
                if len(d) - 4 < self.B:
                    self.finished = True
                self.last_sent = (self.tid, struct.pack('!HH', 4, k))
                return [self.last_sent]
            if k < self.expect:
                return [(self.tid, struct.pack('!HH', 4, k))]   # re-acknowledge a duplicate
            return []
        if op == 5:
            self.aborted = d
        return []


def run_network(rng, files, clients, steps, profile, check_data):
    """profile: dict of probabilities {drop, dup, reorder, tick, foreign, rrq_again, stall}.
    check_data(from_tid, datagram) is called for every datagram any transfer emits.
    Returns the Session (events recorded) ."""
    S = Session(files)
    now = 1_000_000
    c2s, s2c = [], []          # in-flight: (dest_tid, src_cid, bytes) / (from_tid, to_cid, bytes)
    tid_owner = {}
    def emit(sent):
        for from_tid, b, to in sent:
            cid = next((c.cid for c in clients if addr_of(c.cid) == to), None)
            check_data(S, from_tid, b, cid)
            if cid is not None:
                s2c.append((from_tid, cid, b))
    for c in clients:
        c2s.append((0, c.cid, c.rrq()))
    bycid = {c.cid: c for c in clients}
    for step in range(steps):
        if all(c.finished or c.aborted is not None for c in clients) and not c2s and rng.random() < 0.5:
            break
        now += rng.choice([1000, 50_000, 1_000_000, 20_000_000])
        r = rng.random()
        if r < profile.get('tick', 0.1) and S.sim.subs:
            tid = rng.choice(list(S.sim.subs))
            if rng.random() < 0.5:
                now += S.sim.subs[tid].client_state.timeout + rng.choice([1, 1000, 10_000_000])
            emit(S.tick(tid, now))
            continue
        if r < profile.get('tick', 0.1) + profile.get('foreign', 0.05) and S.sim.subs:
            tid = rng.choice(list(S.sim.subs))
            blk = rng.choice([0, 1, 2, 3, S.sim.subs[tid].client_state.blocks_read, 65535])
            payload = rng.choice([struct.pack('!HH', 4, blk), b'\0\5\0\0bye\0', b'junk', b'\0\1x\0octet\0'])
            emit(S.packet(tid, 200 + rng.randrange(5), payload, now))
            continue
        if r < profile.get('tick', 0.1) + profile.get('foreign', 0.05) + profile.get('reap', 0.03):
            S.reap()
            continue
        if rng.random() < profile.get('rrq_again', 0.02):
            c = rng.choice(clients)
            if c.tid is None and c.aborted is None:
                c2s.append((0, c.cid, c.rrq()))
        if rng.random() < profile.get('client_retx', 0.05):
            c = rng.choice(clients)
            if c.last_sent and not c.finished and c.aborted is None and c.cid not in profile.get('stalled', ()):
                c2s.append((c.last_sent[0], c.cid, c.last_sent[1]))
        # deliver something
        pick_c2s = c2s and (not s2c or rng.random() < 0.5)
        if pick_c2s:
            i = rng.randrange(len(c2s)) if rng.random() < profile.get('reorder', 0.2) else 0
            dest, cid, b = c2s[i]
            if rng.random() >= profile.get('dup', 0.1):
                c2s.pop(i)
            if rng.random() < profile.get('drop', 0.1):
                continue
            if dest != 0 and dest not in S.sim.subs:
                continue              # port closed: datagram vanishes
            emit(S.packet(dest, cid, b, now))
        elif s2c:
            i = rng.randrange(len(s2c)) if rng.random() < profile.get('reorder', 0.2) else 0
            from_tid, cid, b = s2c[i]
            if rng.random() >= profile.get('dup', 0.1):
                s2c.pop(i)
            if rng.random() < profile.get('drop', 0.1):
                continue
            c = bycid[cid]
            if cid in profile.get('stalled', ()) and c.expect > profile.get('stall_after', 2):
                continue
            for dest, rb in c.on_datagram(from_tid, b):
                c2s.append((dest, cid, rb))
    return S
