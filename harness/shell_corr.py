"""C19 (shell half) correspondence: the Coq model coq/Shell/Model.v against the REAL nobodd.sh.main.

Seeded command sequences (the generator of props/c19_shell.py, plus a 'wild' generator that aims at
the corners: paths below regular files, missing parents, partition roots, other-case spellings on
FAT, directories onto directories, several sources with a failing one in the middle, -r merges with
conflicts, touch on directories) run through nobodd.sh.main in the worker process of c19_shell over a
host directory and a two-partition image.  Before every command the three real trees are read back
*in the order the real system lists them* and handed to the extracted model together with the
command; after the command the exit status class (success / failure), the bytes written to stdout
(cat) and the three trees read back are compared with the model's outcome and its world in
canonical form (children sorted).  Error message texts and error classes are not compared."""
import os, sys, json, hashlib, shutil, tempfile, time
import lib
from props import c19_shell as S

SPEC_THEOREMS = {
    'Shell.cp_file_exact': 'Shell/ProofsCmd.v. do_cp r [s] d w = (w2, Ok) (with or without -r), s holds File c; t = d/name(s) when d is '
        'a directory (d itself for a root source), else d => w2 = wput w t (File c); t holds File c; s still holds File c; every q '
        'disjoint from t (other file system, or neither a prefix of the other under the name key) resolves as before',
    'Shell.cp_r_tree_exact': 'Shell/ProofsCmd.v. do_cp true [s] d w = (w2, Ok), s holds Dir ch => w2 = wput w t m with m = merge key_t '
        '(what t held) (Dir ch): for every source child in listing order the target child of that name (key of the TARGET '
        'file system; an existing spelling is kept, a new name is appended) is replaced by the merge of the two, other target '
        'children stay; t holds m; s unchanged unless s and t are the same entry; frame as above; t missing and wfb key_t (Dir ch) '
        '(no two siblings share a key, at any depth) => m = Dir ch',
    'Shell.roundtrip': 'Shell/ProofsCmd.v. a on the host holds n, wfb fold n (no two sibling names equal up to fold at any depth), b '
        'creatable on a partition, c creatable on the host (missing, parent is a directory) => cp -r a b and then cp -r b c both '
        'return Ok, c holds exactly n, b holds n, and a still holds n unless c lies inside a.  roundtrip_needs_distinct_names '
        '(Example): with siblings n / N the partition keeps one entry',
    'Shell.mv_moves': 'Shell/ProofsCmd.v. do_mv [s] d w = (w2, Ok), s holds n, same file system: either s and t are the same entry '
        '(any spelling) and w2 = w, or w2 = wrem (wput w t n) s, s resolves to nothing, t holds n, every q disjoint from s '
        'and t resolves as before.  (p_rename: an existing file is replaced by a file; on the host an existing EMPTY '
        'directory is replaced by a directory; FatPath.rename refuses every existing directory; a directory into itself is '
        'EINVAL)',
    'Shell.mv_across': 'Shell/ProofsCmd.v. different file systems, s not a root: w2 = wrem (wput w t (merge key_t (what t held) n)) s; s '
        'gone, t holds the merge, frame; = the rename world wrem (wput w t n) s whenever t was missing and wfb key_t n.  '
        'Difference to a rename: an existing target directory is merged into instead of refused / replaced',
    'Shell.rm_removes_exactly': 'Shell/ProofsCmd.v. do_rm r f [p] = Ok on an existing non-root p => w2 = wrem w p, p resolves to '
        'nothing, every q disjoint from p resolves as before, and without -r p was a file.  rm_dir_needs_r: rm without -r on a '
        'directory = (w, IsADirectoryError).  rm_missing: (w, Ok) with -f, (w, FileNotFoundError) without.  '
        'rmdir_removes_exactly: success => p held Dir [], non-root, w2 = wrem w p.  rmdir_nonempty_fails / rmdir_file_fails: '
        '(w, ENOTEMPTY) / (w, NotADirectoryError)',
    'Shell.failing_command_frame': 'Shell/ProofsFrame.v (command_frame). exec c w = (w2, r) for EVERY command and EVERY outcome r '
        '(success or any error, also after partial work on several operands): every path disjoint from all written operands '
        '(cp: dest; mv: dest and the sources; rm/rmdir/mkdir/touch: the operands; cat: the -o file) resolves exactly as before. '
        'do_mkdir_frame_strong: mkdir [-p] changes only paths that are a prefix of an operand',
    'Shell.cat_concat': 'Shell/ProofsCmd.v. every input holds a file => do_cat srcs None w = (w, Ok (concat contents)); with -o, output '
        'creatable or an existing file and disjoint from the inputs => (wput w o (File (concat contents)), Ok), o holds the '
        'concatenation, frame.  cat_run (Example): a failing input leaves what was read before it in the output file',
    'Shell.examples': 'Shell/ProofsExamples.v, vm_compute: round trip with its hypotheses; name clash; spelling kept on overwrite; '
        'refusals (same file, no -r, into itself); several sources stopping at the failing one; rename / same entry / merge '
        'across file systems; the three host-vs-FAT differences (touch on a directory, is_dir below a file, rename onto an '
        'empty directory); missing partition',
}

TRUSTED = [
    'Shell model: pathlib.Path / FatPath primitives (mkdir, open, touch, unlink, rmdir, rename, is_dir, exists, iterdir) are '
    'modelled as atomic tree updates with the error precedence read from path.py / POSIX; time stamps, 8.3 aliases, "." and '
    '"..", "-" (stdin/stdout paths), out-of-space and symlinks / hard links on the host are not modelled',
    'Shell model: name folding on partitions is a parameter; the runner instantiates it with ASCII upper-casing (names used by '
    'the harness are ASCII); FatPath.__eq__ folds with lower(), FatDirectory with upper()',
    'Shell model: a recursive copy whose source and target lie strictly inside one another on one file system is refused '
    '(OutOfFuel) instead of modelled; such commands are executed but not compared',
    'Shell model: the host root of the model is an ordinary directory of the real host; commands that remove / rename it '
    'are not generated',
]

SMALL = [0, 0, 1, 2, 3, 7, 64, 300]
_COUNT = {}


def _viol(ctx, sig, what, replay):
    k = (id(ctx), sig)
    _COUNT[k] = _COUNT.get(k, 0) + 1
    if _COUNT[k] <= 2:
        ctx.violation(sig, what, replay)


# ----------------------------------------------------------------------------- real trees, ordered
def sha(b):
    return hashlib.sha1(b).hexdigest()


def host_tree(root):
    """[[name, node] ...] in os.listdir order; node = bytes | list"""
    out = []
    for n in os.listdir(root):
        p = os.path.join(root, n)
        if os.path.isdir(p) and not os.path.islink(p):
            out.append([n, host_tree(p)])
        else:
            with open(p, 'rb') as f:
                out.append([n, f.read()])
    return out


def fat_tree(flat, table):
    """the worker's flat listing (in iterdir order) -> ordered nested lists; contents from the hash table"""
    root = []
    index = {(): root}
    for path, ent in flat.items():
        comps = tuple(path.split('/'))
        par = index.get(comps[:-1])
        if par is None:
            raise ValueError(f'listing out of order at {path!r}')
        if ent[0] == 'd':
            node = []
            index[comps] = node
        elif ent[0] == 'dup':
            raise ValueError(f'{path!r} is listed twice')
        else:
            if ent[1] != ent[3]:
                raise ValueError(f'{path!r}: directory entry says {ent[3]} bytes, {ent[1]} can be read')
            if ent[2] not in table:
                raise LookupError(f'{path!r} holds {ent[1]} bytes that no command could have produced')
            node = table[ent[2]]
        par.append([comps[-1], node])
    return root


def canon(tree):
    if isinstance(tree, (bytes, bytearray)):
        return bytes(tree)
    return {k: canon(v) for k, v in tree}


def enc_node(node):
    if isinstance(node, (bytes, bytearray)):
        return [0, bytes(node)]
    return [1, [[k, enc_node(v)] for k, v in node]]


def dec_node(v):
    if v[0] == 0:
        return bytes(v[1]) if not isinstance(v[1], lib.U) else bytes(v[1])
    return {lib.as_text(e[0]): dec_node(e[1]) for e in v[1]}


def contents(tree, table):
    if isinstance(tree, dict):
        for v in tree.values():
            contents(v, table)
    else:
        table[sha(tree)] = tree


def first_diff(a, b, pre=''):
    if isinstance(a, dict) != isinstance(b, dict):
        return f'{pre or "/"}: model has a {"directory" if isinstance(a, dict) else "file"}, the tool left a ' \
               f'{"directory" if isinstance(b, dict) else "file"}'
    if not isinstance(a, dict):
        return None if a == b else f'{pre}: model content {a[:24]!r} ({len(a)} bytes), real {b[:24]!r} ({len(b)} bytes)'
    for k in sorted(set(a) | set(b)):
        if k not in a:
            return f'{pre}/{k}: exists for the tool, not in the model'
        if k not in b:
            return f'{pre}/{k}: in the model, missing for the tool'
        d = first_diff(a[k], b[k], pre + '/' + k)
        if d:
            return d
    return None


# ----------------------------------------------------------------------------- commands -> wire
FSID = {'h': 0, 1: 1, 2: 2}


def wire_path(p):
    return [FSID[p[0]], list(p[1])]


def wire_cmd(c):
    op = c['op']
    if op == 'cp':
        return ['cp', 1 if c.get('r') else 0, [wire_path(p) for p in c['srcs']], [wire_path(c['dest'])]]
    if op == 'mv':
        return ['mv', 0, [wire_path(p) for p in c['srcs']], [wire_path(c['dest'])]]
    if op == 'rm':
        return ['rm', (1 if c.get('r') else 0) | (2 if c.get('f') else 0), [wire_path(p) for p in c['paths']], []]
    if op == 'rmdir':
        return ['rmdir', 0, [wire_path(p) for p in c['paths']], []]
    if op == 'mkdir':
        return ['mkdir', 1 if c.get('parents') else 0, [wire_path(p) for p in c['paths']], []]
    if op == 'touch':
        return ['touch', 0, [wire_path(p) for p in c['paths']], []]
    if op == 'cat':
        return ['cat', 0, [wire_path(p) for p in c['srcs']], [wire_path(c['out'])] if c.get('out') else []]
    raise ValueError(op)


# ----------------------------------------------------------------------------- the wild generator
WNAMES = ['a.txt', 'A.TXT', 'b', 'B', 'd1', 'D1', 'sub', 'Sub', 'x.y', 'readme.md', 'longer-file-name.dat']


def paths_of(tree, want, pre=()):
    out = []
    for k, v in tree:
        isd = not isinstance(v, (bytes, bytearray))
        if want is None or want == isd:
            out.append(pre + (k,))
        if isd:
            out.extend(paths_of(v, want, pre + (k,)))
    return out


def wild_command(rng, trees, fss):
    """one command aimed at the corners, built from the REAL current trees ({fs: ordered tree})"""
    def style(fs):
        return rng.choice(['n', 'n', 'a']) if fs == 1 else 'n'

    def respell(fs, comps):
        if fs != 'h' and comps and rng.random() < 0.25:
            i = rng.randrange(len(comps))
            comps = comps[:i] + (comps[i].swapcase(),) + comps[i + 1:]
        return comps

    def pick(fs, kinds, allow_root=True):
        files, dirs = paths_of(trees[fs], False), paths_of(trees[fs], True)
        for _ in range(8):
            k = rng.choice(kinds)
            if k == 'file' and files:
                return respell(fs, rng.choice(files))
            if k == 'dir' and dirs:
                return respell(fs, rng.choice(dirs))
            if k == 'root' and allow_root:
                return ()
            if k == 'fresh':
                d = rng.choice([()] + dirs)
                return respell(fs, d) + (rng.choice(WNAMES),)
            if k == 'below-file' and files:
                return rng.choice(files) + (rng.choice(WNAMES),)
            if k == 'orphan':
                d = rng.choice([()] + dirs)
                return d + ('nope', rng.choice(WNAMES))
        return (rng.choice(WNAMES),)

    def P(fs, comps):
        return [fs, list(comps), style(fs)]

    SRC = ['file'] * 5 + ['dir'] * 4 + ['fresh', 'below-file']
    DST = ['fresh'] * 4 + ['dir'] * 4 + ['file'] * 2 + ['root', 'below-file', 'orphan']
    ANY = ['file'] * 3 + ['dir'] * 3 + ['fresh'] * 2 + ['below-file', 'orphan']
    op = rng.choice(['cp'] * 5 + ['mv'] * 5 + ['rm'] * 3 + ['rmdir'] * 2 + ['mkdir'] * 3 + ['touch'] * 2 + ['cat'] * 2)
    fs, fs2 = rng.choice(fss), rng.choice(fss)
    if rng.random() < 0.45:
        fs2 = fs
    if op in ('cp', 'mv'):
        n = 1 if rng.random() < 0.7 else rng.randrange(2, 4)
        srcs = [P(fs, pick(fs, SRC, False)) for _ in range(n)]
        if n > 1 and rng.random() < 0.5:
            srcs[rng.randrange(n)] = P(fs2, pick(fs2, ['fresh', 'file', 'dir'], False))
        dest = P(fs2, pick(fs2, DST if n == 1 else ['dir'] * 5 + ['root', 'fresh', 'file']))
        if op == 'cp':
            return {'op': 'cp', 'r': rng.random() < 0.6, 'srcs': srcs, 'dest': dest}
        return {'op': 'mv', 'srcs': srcs, 'dest': dest}
    n = 1 if rng.random() < 0.75 else 2
    if op == 'rm':
        return {'op': 'rm', 'r': rng.random() < 0.5, 'f': rng.random() < 0.4,
                'paths': [P(fs, pick(fs, ANY, fs != 'h' and rng.random() < 0.05)) for _ in range(n)]}
    if op == 'rmdir':
        return {'op': 'rmdir', 'paths': [P(fs, pick(fs, ['dir'] * 4 + ['file', 'fresh', 'below-file'], fs != 'h')) for _ in range(n)]}
    if op == 'mkdir':
        kinds = ['fresh'] * 4 + ['orphan'] * 3 + ['dir', 'file', 'below-file', 'root']
        return {'op': 'mkdir', 'parents': rng.random() < 0.5, 'paths': [P(fs, pick(fs, kinds)) for _ in range(n)]}
    if op == 'touch':
        return {'op': 'touch', 'paths': [P(fs, pick(fs, ['fresh'] * 3 + ['file', 'dir', 'below-file', 'orphan'])) for _ in range(n)]}
    srcs = []
    for _ in range(rng.randrange(1, 4)):
        f = rng.choice(fss)
        srcs.append(P(f, pick(f, ['file'] * 8 + ['dir', 'fresh'], False)))
    c = {'op': 'cat', 'srcs': srcs}
    if rng.random() < 0.6:
        out = P(fs2, pick(fs2, ['fresh'] * 4 + ['file'] * 2 + ['dir', 'orphan']))
        if not any(S.key(s)[0] == out[0] and tuple(x.lower() for x in s[1]) == tuple(x.lower() for x in out[1]) for s in srcs):
            c['out'] = out
    return c


def excluded(c):
    """commands outside the model: the host root (an ordinary directory of the real host) as a source / operand"""
    ops = c.get('paths', []) + c.get('srcs', [])
    return any(p[0] == 'h' and not p[1] for p in ops) and c['op'] != 'cat'


# ----------------------------------------------------------------------------- one sequence
class Session:
    """a host directory + image + worker; reads the real trees back in listing order"""
    def __init__(self, worker, vols):
        self.w = worker
        self.T = tempfile.mkdtemp(prefix='shcorr-')
        os.mkdir(os.path.join(self.T, 'host'))
        self.image = os.path.join(self.T, 'disk.img')
        S.build_image(self.image, vols)
        self.parts = list(range(1, len(vols) + 1))
        self.fss = ['h'] + self.parts
        self.table = {sha(b''): b''}

    def read(self):
        """-> {fs: ordered tree}; raises ValueError / LookupError with a description when the image is unreadable"""
        r = self.w.call({'op': 'walk', 'image': self.image, 'parts': self.parts})
        trees = {'h': host_tree(os.path.join(self.T, 'host'))}
        for n in self.parts:
            res = r[str(n)]
            if 'error' in res:
                raise ValueError(f'partition {n} cannot be read back: {res["error"]}')
            if res['warnings']:
                raise ValueError(f'opening partition {n} warns {res["warnings"]}')
            trees[n] = fat_tree(res['tree'], self.table)
        return trees

    def close(self):
        shutil.rmtree(self.T, ignore_errors=True)


def model_step(R, trees, c):
    world = [[FSID[fs], enc_node(t)] for fs, t in trees.items()]
    v = R.call('run', [world, [wire_cmd(c)]])
    if not (isinstance(v, list) and len(v) == 2 and len(v[0]) == 1):
        raise lib.BuildError(f'bad runner reply {v!r}'[:300])
    out = R.unres(v[0][0])
    after = {e[0]: dec_node(e[1]) for e in v[1]}
    return out, after


def show_cmd(T, c):
    return ' '.join(a.replace(T + '/', '') for a in S.argv_of(T, c))


def run_one(ctx, R, worker, vols, cmds, wild, rng, length, kind):
    """run a sequence (cmds given, or `length` wild commands); -> number of compared commands"""
    ses = Session(worker, vols)
    done, history = 0, []
    ident = hashlib.sha1(json.dumps([vols, cmds], sort_keys=True, default=str).encode()).hexdigest()[:12] if cmds else \
        '%x' % rng.getrandbits(48)
    try:
        try:
            trees = ses.read()
        except (ValueError, LookupError) as exc:
            _viol(ctx, 'sh.model/image-unreadable', f'fresh image: {exc}', dict(api='sh-model', vols=vols, cmds=[]))
            return 0
        i = 0
        while True:
            if wild:
                if i >= length:
                    break
                if i < 3 or rng.random() < 0.06:
                    d = rng.choice([()] + paths_of(trees['h'], True))
                    c = {'op': 'put', 'path': ['h', list(d) + [rng.choice(WNAMES)]], 'size': rng.choice(SMALL),
                         'seed': rng.randrange(1 << 30)}
                else:
                    c = wild_command(rng, trees, ses.fss)
            else:
                if i >= len(cmds):
                    break
                c = cmds[i]
            i += 1
            if c['op'] == 'put':
                path = S.render(ses.T, c['path'])
                if os.path.isdir(os.path.dirname(path)) and not os.path.isdir(path):
                    data = S.content_of(c['size'], c['seed'])
                    with open(path, 'wb') as f:
                        f.write(data)
                    ses.table[sha(data)] = data
                    history.append(c)
                    trees['h'] = host_tree(os.path.join(ses.T, 'host'))
                continue
            if excluded(c):
                continue
            history.append(c)
            show = show_cmd(ses.T, c)
            replay = dict(api='sh-model', vols=vols, cmds=list(history))
            out, after = model_step(R, trees, c)
            if out == ('err', 'OutOfFuel'):
                # a recursive copy into / out of its own sub-tree: the real tool recurses into what it writes; not run
                ctx.stat('shm-not-modelled-overlap')
                history.pop()
                continue
            for t in after.values():
                contents(t, ses.table)
            try:
                r = worker.call({'op': 'sh', 'argv': S.argv_of(ses.T, c)})
            except S.Hang:
                _viol(ctx, f'sh.model/{c["op"]}/hang', f'`{show}` did not return within 30 s', replay)
                return done
            rc = r['rc']
            if not isinstance(rc, int):
                _viol(ctx, f'sh.model/{c["op"]}/crash', f'`{show}` escaped main(): {rc}', replay)
                return done
            try:
                real = ses.read()
            except S.Hang:
                _viol(ctx, f'sh.model/{c["op"]}/walk-hang', f'reading the image back after `{show}` did not return', replay)
                return done
            except ValueError as exc:
                _viol(ctx, f'sh.model/{c["op"]}/image-unreadable', f'after `{show}`: {exc}', replay)
                return done
            except LookupError as exc:
                _viol(ctx, f'sh.model/{c["op"]}/content', f'after `{show}` (model: {out[0]} {out[1] if out[0] == "err" else ""}): {exc}',
                      replay)
                return done
            before, trees = trees, real
            if rc != 0 and 'No space left' in r['err']:
                ctx.stat('shm-out-of-space')
                continue
            done += 1
            changed = any(canon(before[fs]) != canon(real[fs]) for fs in real)
            ctx.case(('shm', ident, i), True, 'shm-' + kind)
            ctx.stat(f'shm-{c["op"]}-' + ('ok' if rc == 0 else 'fail-changed' if changed else 'fail'))
            tag = f'sh.model/{c["op"]}'
            if (rc == 0) != (out[0] == 'ok'):
                _viol(ctx, tag + '/status', f'`{show}`: the tool returned {rc} ({r["err"].strip()[-120:]!r}), the model says '
                                            f'{out[0]}{" " + out[1] if out[0] == "err" else ""}', replay)
                return done
            for fs in real:
                d = first_diff(after[FSID[fs]], canon(real[fs]))
                if d:
                    where = 'host' if fs == 'h' else f'partition {fs}'
                    _viol(ctx, tag + ('/tree' if rc == 0 else '/tree-after-failure'),
                          f'`{show}` ({"succeeded" if rc == 0 else "failed: " + r["err"].strip()[-80:]}); {where} {d}', replay)
                    return done
            if rc == 0 and c['op'] == 'cat' and not c.get('out') and bytes.fromhex(r['out']) != bytes(out[1]):
                _viol(ctx, tag + '/stdout', f'`{show}` wrote {len(r["out"]) // 2} bytes to stdout, the model {len(out[1])}', replay)
                return done
        return done
    finally:
        ses.close()


def scripted():
    """fixed corner histories (run first, every time)"""
    H = lambda *p: ['h', list(p), 'n']
    I = lambda *p: [1, list(p), 'n']
    A = lambda *p: [1, list(p), 'a']
    J = lambda *p: [2, list(p), 'n']
    put = lambda name, size, seed: {'op': 'put', 'path': ['h', [name]], 'size': size, 'seed': seed}
    cp = lambda s, d, r=False: {'op': 'cp', 'r': r, 'srcs': s, 'dest': d}
    mv = lambda s, d: {'op': 'mv', 'srcs': s, 'dest': d}
    mk = lambda *ps, p=False: {'op': 'mkdir', 'parents': p, 'paths': list(ps)}
    rm = lambda *ps, r=False, f=False: {'op': 'rm', 'r': r, 'f': f, 'paths': list(ps)}
    return [
        # an empty file over a non-empty one truncates it (host -> image, image -> image, image -> host, across partitions)
        [put('full', 7, 1), put('empty', 0, 2), cp([H('full')], I('t')), cp([H('full')], J('t')), cp([H('empty')], I('t')),
         cp([I('t')], J('t')), cp([H('full')], H('t2')), cp([J('t')], H('t2')), cp([H('full')], I('u')), cp([H('empty')], I('e')),
         cp([I('e')], A('U')), {'op': 'cat', 'srcs': [H('empty')], 'out': H('full')}],
        # directories need -r to go; -f forgives only a missing operand
        [put('f', 3, 3), mk(H('d', 'e'), I('d', 'e'), J('d'), p=True), rm(H('d')), rm(I('d')), rm(I('D'), f=True), rm(J('d')),
         rm(H('nope')), rm(H('nope'), f=True), rm(I('nope'), f=True), rm(H('f', 'x'), f=True), rm(H('nope'), H('f')),
         {'op': 'rmdir', 'paths': [I('d')]}, {'op': 'rmdir', 'paths': [I('d', 'E'), I('D')]}, rm(H('d'), r=True), rm(J(), r=True)],
        # moving across file systems removes the source; within one it renames; onto itself nothing happens
        [put('f', 5, 4), put('g', 2, 5), mk(H('d', 'e'), I('x'), p=True), cp([H('f'), H('g')], H('d', 'e')), mv([H('f')], I('F')),
         mv([I('f')], J('f')), mv([H('d')], I('x')), mv([I('x', 'd')], J('dd')), mv([J('dd', 'e', 'g')], J('DD', 'E', 'G')),
         mv([J('dd')], I('x')), mv([I('x')], H()), mv([H('x'), H('g')], H('nope')), mv([H('x', 'dd'), H('nope'), H('g')], I()),
         mk(J('dd', 'e'), p=True), mv([I('dd')], J()), mk(H('m', 'dd'), I('m'), p=True), mv([H('m', 'dd')], I('m')),
         mv([I('m', 'dd')], H('m')), mk(H('m', 'dd')), mv([I('m')], H()), {'op': 'touch', 'paths': [H('m'), I('M', 'new'), I('m')]}],
        # a directory onto an existing directory of its name: os.rename replaces an empty one, FatPath.rename refuses,
        # across file systems the two are merged
        [put('k', 1, 6), mk(H('s'), H('e', 's'), I('s'), I('e', 's'), J('e', 's', 'z'), p=True), cp([H('k')], H('s')), cp([H('k')], I('s')),
         mv([I('s')], I('E')), mv([H('s')], H('e')), mv([I('s')], J('e')), mv([H('e', 's')], J('E')), mk(H('s', 'n'), H('e', 's', 'm'), p=True),
         mv([H('s')], H('e')), cp([H('s')], H('e'), True), cp([H('k')], H('e', 's', 'n')), cp([H('s'), H('k')], H('e'), True)],
    ]


def image_words(ctx, R):
    """sh._image_re (which command-line words name something inside an image, and how they split) against the scanner of
    Shell/Paths.v: structured words (image : [partition] path, image names with colons, partitions with leading zeros /
    four digits / zero), words over a small alphabet exhaustively, and random ones"""
    import itertools
    import nobodd.sh as SH
    rng = ctx.rng
    words = ['disk.img:1/a', 'disk.img:/a', 'disk.img:1', 'disk.img:', ':1/x', ':/x', ':', '', '/host/path', 'rel/path', 'a:b:2/x', 'a:/b:2/x',
             'd:01/a', 'd:0/a', 'd:10/a', 'd:100/a', 'd:999/a', 'd:1000/a', 'd:1234/a', 'd:12a/x', 'd:1/', 'd:1//x', 'C:\\dir\\f', 'd:1/a\n',
             'd:1/a\nb', 'd\n:1/a', 'd:1\n/a', 'd:1/a\n\n', 'é.img:2/ü', 'd:9/日本', 'img:1/p:2/q', 'img:x:1/p', 'img::1/p', 'img::/p', 'a:1:2/p',
             'a:12:/p', 'a:/', 'a:1/ ', ' a:1/x', 'a :1/x', 'a: 1/x', 'a:1 /x', 'a:+1/x', 'a:١/x', 'a:1/x:y', 'http://host/x', 'file:///etc']
    alpha = 'a:/19\n0'
    for n in range(0, 6 if ctx.thorough else 5):
        words += [''.join(t) for t in itertools.product(alpha, repeat=n)]
    for _ in range(3000 if ctx.thorough else 600):
        words.append(''.join(rng.choice('ab:/:/0129 .\n-') for _ in range(rng.randint(0, 14))))
    seen = set()
    words = [w for w in words if not (w in seen or seen.add(w))]
    got = R.batch('parse_words', [[w] for w in words], chunk=400) if hasattr(R, 'batch') else None
    out = []
    if got is None:
        got = [R.call('parse_words', [w])[0] for w in words]
    else:
        got = [g[0] for g in got]
    for w, g in zip(words, got):
        m = SH._image_re.match(w)
        want = None if m is None else (m['image'], int(m['part'] or -1), m['path'])
        model = None if not g else (lib.as_text(g[0]), (g[1][0] if g[1] else -1), lib.as_text(g[2]))
        ctx.case(('image-word', w), m is not None, 'image-word-' + ('match' if m else 'host'))
        if want != model:
            _viol(ctx, 'sh.model/image-word', f'sh._image_re splits {w!r} as {want}, the scanner of Shell/Paths.v as {model}', dict(api='image-word', word=w))
            return


def path_algebra(ctx, R):
    """the pure path algebra of FatPath (get_parts, str, name / suffix / stem, parent, joinpath, with_name, relative_to)
    against Shell/PathAlg.v, on segment lists over names, dots, empty strings and slashes"""
    from nobodd.path import FatPath
    rng = ctx.rng
    class FakeFs:
        pass
    fake = FakeFs()
    atoms = ['a', 'b.txt', 'c.tar.gz', '.hidden', 'x y', 'Dir', '.', '..', '..', 'é', 'n.', '']
    def seg():
        k = rng.randint(0, 4)
        body = '/'.join(rng.choice(atoms) for _ in range(k))
        return rng.choice(['', '', '/', '//']) + body + rng.choice(['', '', '/'])
    cases = [([], [], 'n'), ([''], [''], ''), (['/'], ['/'], 'x'), (['/a/b'], ['/a'], 'c'), (['a/b', 'c'], ['a'], 'q.r'), (['/a//b/', '', 'c/'], ['/a/b'], 'z'),
             (['/'], ['a'], 'w'), (['a'], ['/'], 'w'), (['/a/b.tar.gz'], ['/a', 'b.tar.gz'], 'n.ew'), (['.'], ['.'], 'k'), (['..', 'a'], ['..'], 'k'),
             (['/a/b'], ['/a/b'], 'k'), (['/a/b'], ['/a/b/c'], 'k'), (['/.x'], [], '.y'), (['/a/b'], ['/A'], 'k')]
    for _ in range(2500 if ctx.thorough else 500):
        segs = [seg() for _ in range(rng.randint(0, 3))]
        if rng.random() < 0.5 and segs:
            # an `other` that is a prefix of the path (relative_to succeeds), spelled as one or several segments
            try:
                pp = list(FatPath(fake, *segs)._parts)
            except ValueError:
                pp = []
            k = rng.randint(0, len(pp))
            pre = pp[:k]
            other = ['/'.join(pre) or ('/' if pre == [''] else '')] if rng.random() < 0.5 else [('/' if x == '' and i == 0 else x) for i, x in enumerate(pre)]
        else:
            other = [seg() for _ in range(rng.randint(0, 2))]
        cases.append((segs, other, rng.choice(['n', 'new.name', '', 'a/b', '.k'])))
    got = R.batch('path_alg', [[list(sg), list(o), nm] for sg, o, nm in cases], chunk=200)
    T = lib.as_text
    for (segs, other, nm), g in zip(cases, got):
        try:
            p = FatPath(fake, *segs)
        except ValueError:
            continue            # a component that is not a valid name: the constructor refuses (FatNames / C11)
        def attempt(f):
            try:
                r = f()
                return list(r._parts) if isinstance(r, FatPath) else r
            except (ValueError, TypeError) as e:
                return None
        real = [list(p._parts), str(p), p.name, p.suffix, p.stem, attempt(lambda: p.parent), attempt(lambda: p.joinpath(*other)),
                attempt(lambda: p.with_name(nm)), attempt(lambda: p.relative_to(*other)) if other else 'skip', p.is_absolute(),
                attempt(lambda: p.resolve())]
        model = [[T(x) for x in g[0]], T(g[1]), T(g[2]), T(g[3]), T(g[4]), [T(x) for x in g[5]], [T(x) for x in g[6]],
                 ([T(x) for x in g[7][0]] if g[7] else None), ([T(x) for x in g[8][0]] if g[8] else None), bool(g[9]),
                 ([T(x) for x in g[10][0]] if g[10] else None)]
        labels = ['_parts', 'str', 'name', 'suffix', 'stem', 'parent', 'joinpath', 'with_name', 'relative_to', 'is_absolute', 'resolve']
        ctx.case(('path-alg', tuple(segs), tuple(other), nm), len(real[0]) > 1, 'path-algebra')
        for lab, a, b in zip(labels, real, model):
            if a == 'skip':
                continue
            if lab in ('joinpath', 'with_name', 'relative_to') and a is None and b is not None:
                # the real constructor also validates names (lfn_valid): a refusal for that reason is not the algebra's business
                continue
            if a != b:
                _viol(ctx, 'sh.model/path-algebra', f'FatPath(fs, *{segs!r}).{lab}' + (f'({other!r})' if lab in ('joinpath', 'relative_to') else f'({nm!r})' if lab == 'with_name' else '')
                      + f' = {a!r}, Shell/PathAlg.v says {b!r}', dict(api='path-alg', segs=segs, other=other, name=nm, what=lab))
                return


def run(ctx):
    rng = ctx.rng
    R = ctx.runner('Shell')
    image_words(ctx, R)
    path_algebra(ctx, R)
    worker = S.Worker()
    t0 = time.time()
    budget = 600 if ctx.thorough else 75
    target = 6000 if ctx.thorough else 700
    total = 0
    old_sizes = S.SIZES
    try:
        S.SIZES = SMALL
        # the scripted round trip of c19_shell with a small file
        seq = S.roundtrip_sequence(rng, 300)
        total += run_one(ctx, R, worker, seq.vols, seq.cmds, False, rng, 0, 'roundtrip')
        for cmds in scripted():
            total += run_one(ctx, R, worker, [['fat12', 600, 1], ['fat32', 600, 1]], cmds, False, rng, 0, 'scripted')
        k = 0
        while total < target and time.time() - t0 < budget:
            k += 1
            if k % 5 < 2:
                seq = S.gen_sequence(rng, rng.randrange(8, 24))
                total += run_one(ctx, R, worker, seq.vols, seq.cmds, False, rng, 0, 'generated')
            else:
                types = ['fat12', 'fat16', 'fat32']
                vols = [[rng.choice(types), 600, 1], [rng.choice(types), rng.choice([300, 600]), rng.choice([1, 2])]]
                total += run_one(ctx, R, worker, vols, None, True, rng, rng.randrange(15, 40), 'wild')
    finally:
        S.SIZES = old_sizes
        worker.close()
    ctx.stat('shm-commands-compared', total)
    ctx.sample(dict(api='sh-model', note='every command: real trees (listing order) -> model; status class, stdout, three trees compared',
                    commands=total, seconds=round(time.time() - t0, 1)))


def replay(ctx, obj):
    """re-run a recorded sequence; True when nothing is reported any more"""
    r = obj['replay'] if 'replay' in obj else obj
    R = ctx.runner('Shell')
    worker = S.Worker()
    n0 = len(ctx.violations)
    for k in [k for k in _COUNT if k[0] == id(ctx)]:
        del _COUNT[k]
    try:
        run_one(ctx, R, worker, r['vols'], r['cmds'], False, ctx.rng, 0, 'replay')
    finally:
        worker.close()
    for v in ctx.violations[n0:]:
        print('  ', v[0], v[1])
    return len(ctx.violations) == n0
