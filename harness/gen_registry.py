"""Gen/Registry.v: the facts about nobodd/tftpd.py that the concurrent model of the
transfer registry (coq/Registry) rests on.

* canonical per-method digests (statement skeleton, docstrings and logging removed) of
  TFTPSubServers.__init__/close/add/_remove/run and TFTPBaseServer.server_close;
* every access to `self._alive` lies lexically inside `with self._lock:` or in
  `_remove`; `_remove` is called only from inside `with self._lock:` blocks of the class;
* the registry is reached only as `self.server.subs.add(..)` in TFTPBaseHandler.do_RRQ
  (listener thread) and `self.subs.close()` in TFTPBaseServer.server_close;
* no method of TFTPHandler / TFTPSubHandler / TFTPSubServer / TFTPClientState calls
  `.shutdown(` or `._remove(` (a sub-server thread never waits for its own loop to end);
* the poll interval of the sub-servers, the reaper's wait, the two join timeouts.
Anything not understood raises TranslateError (fail closed)."""
import ast, hashlib, os
from translate import *

NAME = 'Registry'

METHODS = [('TFTPSubServers', '__init__'), ('TFTPSubServers', 'close'), ('TFTPSubServers', 'add'),
           ('TFTPSubServers', '_remove'), ('TFTPSubServers', 'run'), ('TFTPBaseServer', 'server_close')]
SUB_THREAD_CLASSES = ['TFTPHandler', 'TFTPSubHandler', 'TFTPSubServer', 'TFTPClientState']


def is_doc(node):
    return isinstance(node, ast.Expr) and isinstance(node.value, ast.Constant) \
        and isinstance(node.value.value, str)


def is_log(node):
    return isinstance(node, ast.Expr) and isinstance(node.value, ast.Call) \
        and ast.unparse(node.value.func).startswith('self.logger.')


def skeleton(stmts, out):
    for s in stmts:
        if is_doc(s) or is_log(s):
            continue
        if isinstance(s, ast.If):
            out.append('if ' + ast.unparse(s.test)); skeleton(s.body, out)
            if s.orelse:
                out.append('else'); skeleton(s.orelse, out)
            out.append('endif')
        elif isinstance(s, ast.While):
            if s.orelse:
                raise TranslateError('while/else not understood')
            out.append('while ' + ast.unparse(s.test)); skeleton(s.body, out); out.append('endwhile')
        elif isinstance(s, ast.For):
            if s.orelse:
                raise TranslateError('for/else not understood')
            out.append('for ' + ast.unparse(s.target) + ' in ' + ast.unparse(s.iter))
            skeleton(s.body, out); out.append('endfor')
        elif isinstance(s, ast.With):
            out.append('with ' + ', '.join(ast.unparse(i) for i in s.items))
            skeleton(s.body, out); out.append('endwith')
        elif isinstance(s, ast.Assert):
            out.append('assert ' + ast.unparse(s.test))
        elif isinstance(s, (ast.Return, ast.Assign, ast.AugAssign, ast.Expr, ast.Raise, ast.Pass)):
            out.append(ast.unparse(s))
        else:
            raise TranslateError(f'tftpd.py registry: statement kind not understood: {type(s).__name__}')
    return out


def coq_str(s):
    if any(ord(c) > 126 or ord(c) < 32 for c in s):
        raise TranslateError('non-printable character in skeleton')
    return '"' + s.replace('"', '""') + '"%string'


def method(tree, cls, name):
    fn = find_func(find_class(tree, cls).body, name)
    if fn.decorator_list:
        raise TranslateError(f'{cls}.{name}: decorators not understood')
    return fn


def is_self_attr(node, attr):
    return isinstance(node, ast.Attribute) and node.attr == attr \
        and isinstance(node.value, ast.Name) and node.value.id == 'self'


def lock_walk(stmts, locked, visit):
    """call visit(node, locked) for every statement-level subtree, tracking `with self._lock`"""
    for s in stmts:
        if isinstance(s, ast.With):
            takes = any(is_self_attr(i.context_expr, '_lock') for i in s.items)
            for i in s.items:
                visit(i.context_expr, locked)
            lock_walk(s.body, locked or takes, visit)
        elif isinstance(s, (ast.If, ast.While)):
            visit(s.test, locked); lock_walk(s.body, locked, visit); lock_walk(s.orelse, locked, visit)
        elif isinstance(s, ast.For):
            visit(s.iter, locked); visit(s.target, locked)
            lock_walk(s.body, locked, visit); lock_walk(s.orelse, locked, visit)
        elif isinstance(s, ast.Try):
            lock_walk(s.body, locked, visit); lock_walk(s.orelse, locked, visit)
            lock_walk(s.finalbody, locked, visit)
            for h in s.handlers:
                lock_walk(h.body, locked, visit)
        elif isinstance(s, (ast.FunctionDef, ast.AsyncFunctionDef, ast.ClassDef, ast.Lambda)):
            raise TranslateError('nested definition in a registry method')
        else:
            visit(s, locked)


def num(node, what):
    v = const_eval(node, {})
    if isinstance(v, bool) or not isinstance(v, (int, float)) or v < 0:
        raise TranslateError(f'{what}: not a non-negative number')
    return v


def emit():
    t = parse('tftpd.py')
    L = [HEADER.format(src='tftpd.py (TFTPSubServers and its users)')]
    reg = find_class(t, 'TFTPSubServers')
    if [ast.unparse(b) for b in reg.bases] != ['Thread']:
        raise TranslateError('TFTPSubServers is not a plain Thread subclass')
    imp = [n for n in t.body if isinstance(n, ast.ImportFrom) and n.module == 'threading']
    if len(imp) != 1 or sorted(a.name for a in imp[0].names) != ['Event', 'Lock', 'Thread'] \
            or any(a.asname for a in imp[0].names):
        raise TranslateError('tftpd.py: `from threading import Thread, Lock, Event` expected')
    # nothing but the modelled methods in the class
    known = {n for c, n in METHODS if c == 'TFTPSubServers'}
    for n in reg.body:
        if is_doc(n):
            continue
        if isinstance(n, ast.Assign) and ast.unparse(n) == 'logger = TFTPBaseServer.logger':
            continue
        if not isinstance(n, ast.FunctionDef) or n.name not in known:
            raise TranslateError(f'TFTPSubServers: member not modelled: {ast.unparse(n)[:60]}')
    # digests
    skels = {}
    for cls, name in METHODS:
        fn = method(t, cls, name)
        skels[(cls, name)] = skeleton(fn.body, [ast.unparse(fn.args)])
    # _alive / _remove placement
    alive_ok, remove_ok = True, True
    for fn in reg.body:
        if not isinstance(fn, ast.FunctionDef):
            continue
        def visit(node, locked, fn=fn):
            nonlocal alive_ok, remove_ok
            for x in ast.walk(node):
                if isinstance(x, (ast.Lambda, ast.FunctionDef)):
                    raise TranslateError('nested function in a registry method')
                if is_self_attr(x, '_alive'):
                    if fn.name == '__init__':
                        if not (isinstance(node, ast.Assign) and ast.unparse(node) == 'self._alive = {}'):
                            raise TranslateError('__init__: _alive is not initialised as an empty dict')
                    elif fn.name != '_remove' and not locked:
                        alive_ok = False
                elif isinstance(x, ast.Attribute) and x.attr == '_alive':
                    raise TranslateError('_alive reached through something other than self')
                if isinstance(x, ast.Call) and isinstance(x.func, ast.Attribute) and x.func.attr == '_remove':
                    if not is_self_attr(x.func, '_remove'):
                        raise TranslateError('_remove called on something other than self')
                    if not locked:
                        remove_ok = False
                elif isinstance(x, ast.Attribute) and x.attr == '_remove' and \
                        not any(isinstance(c, ast.Call) and c.func is x for c in ast.walk(node)):
                    raise TranslateError('_remove used other than by calling it')
        lock_walk(fn.body, False, visit)
    # outside the class: nobody touches _alive / _remove / _lock of the registry, in any module
    entry_ok = True
    uses = []
    for fname in sorted(os.listdir(SRC)):
        if not fname.endswith('.py'):
            continue
        tree = parse(fname)
        for top in tree.body:
            if fname == 'tftpd.py' and isinstance(top, ast.ClassDef) and top.name == 'TFTPSubServers':
                continue
            for x in ast.walk(top):
                if isinstance(x, ast.Attribute) and x.attr == '_alive':
                    entry_ok = False
                if isinstance(x, ast.Attribute) and x.attr == '_remove':
                    entry_ok = False
                if isinstance(x, ast.Attribute) and x.attr == 'subs':
                    uses.append((fname, getattr(top, 'name', '?')))
                if isinstance(x, ast.Name) and x.id == 'TFTPSubServers' and not \
                        (fname == 'tftpd.py' and isinstance(top, ast.ClassDef) and top.name == 'TFTPBaseServer'):
                    entry_ok = False
    if sorted(uses) != [('tftpd.py', 'TFTPBaseHandler'), ('tftpd.py', 'TFTPBaseServer'), ('tftpd.py', 'TFTPBaseServer')]:
        entry_ok = False
    rrq = ast.unparse(method(t, 'TFTPBaseHandler', 'do_RRQ'))
    if rrq.count('self.server.subs.') != 1 or 'self.server.subs.add(sub_server)' not in rrq:
        entry_ok = False
    base = find_class(t, 'TFTPBaseServer')
    binit = skeleton(method(t, 'TFTPBaseServer', '__init__').body, [])
    if binit.count('self.subs = TFTPSubServers()') != 1 or \
            sum('subs' in x for x in binit) != 1:
        entry_ok = False
    if skels[('TFTPBaseServer', 'server_close')][1:] != ['super().server_close()', 'self.subs.close()']:
        entry_ok = False
    # sub-server side: no shutdown / _remove from the thread that runs serve_forever
    no_self = True
    for cls in SUB_THREAD_CLASSES:
        for x in ast.walk(find_class(t, cls)):
            if isinstance(x, ast.Attribute) and x.attr in ('shutdown', '_remove', 'server_close', 'subs'):
                no_self = False
            if isinstance(x, ast.Name) and x.id in ('getattr', 'eval', 'exec') and cls != 'TFTPHandler':
                raise TranslateError(f'{cls}: dynamic attribute access not understood')
    # TFTPSubServer must not override the socketserver loop
    sub = find_class(t, 'TFTPSubServer')
    if [ast.unparse(b) for b in sub.bases] != ['UDPServer']:
        raise TranslateError('TFTPSubServer is not a plain UDPServer subclass')
    for n in sub.body:
        if isinstance(n, ast.FunctionDef) and n.name in ('serve_forever', 'shutdown', 'server_close'):
            raise TranslateError(f'TFTPSubServer overrides {n.name}: loop protocol not the socketserver one')
    # constants
    add = method(t, 'TFTPSubServers', 'add')
    threads = [x for x in ast.walk(add) if isinstance(x, ast.Call) and ast.unparse(x.func) == 'Thread']
    if len(threads) != 1:
        raise TranslateError('add: exactly one Thread(...) expected')
    kw = {k.arg: k.value for k in threads[0].keywords}
    if threads[0].args or sorted(kw) != ['kwargs', 'target'] or \
            ast.unparse(kw['target']) != 'server.serve_forever' or \
            not isinstance(kw['kwargs'], ast.Dict) or len(kw['kwargs'].keys) != 1 or \
            const_eval(kw['kwargs'].keys[0], {}) != 'poll_interval':
        raise TranslateError('add: Thread(target=server.serve_forever, kwargs={"poll_interval": ..}) expected')
    poll = num(kw['kwargs'].values[0], 'poll_interval')
    run = method(t, 'TFTPSubServers', 'run')
    waits = [x for x in ast.walk(run) if isinstance(x, ast.Call) and ast.unparse(x.func) == 'self._done.wait']
    if len(waits) != 1 or len(waits[0].args) != 1 or waits[0].keywords:
        raise TranslateError('run: exactly one self._done.wait(<seconds>) expected')
    rwait = num(waits[0].args[0], 'reaper wait')

    def join_timeout(fn, target):
        js = [x for x in ast.walk(fn) if isinstance(x, ast.Call) and ast.unparse(x.func) == target]
        if len(js) != 1 or js[0].args or [k.arg for k in js[0].keywords] != ['timeout']:
            raise TranslateError(f'{fn.name}: exactly one {target}(timeout=..) expected')
        return num(js[0].keywords[0].value, 'join timeout')
    jrm = join_timeout(method(t, 'TFTPSubServers', '_remove'), 'thread.join')
    jcl = join_timeout(method(t, 'TFTPSubServers', 'close'), 'self.join')
    ms = lambda v: int(round(v * 1000))
    L.append(f'Definition alive_only_in_lock_blocks : bool := {coq_bool(alive_ok)}.')
    L.append(f'Definition remove_only_in_lock_blocks : bool := {coq_bool(remove_ok)}.')
    L.append(f'Definition registry_entry_points_ok : bool := {coq_bool(entry_ok)}.')
    L.append(f'Definition no_self_shutdown : bool := {coq_bool(no_self)}.')
    L.append(f'Definition sub_poll_interval_ms : N := {coq_N(ms(poll))}.')
    L.append(f'Definition reaper_wait_ms : N := {coq_N(ms(rwait))}.')
    L.append(f'Definition remove_join_timeout_s : N := {coq_N(int(jrm))}.')
    L.append(f'Definition close_join_timeout_s : N := {coq_N(int(jcl))}.')
    L.append('Definition registry_digests : list (string * string) := [')
    rows = []
    for cls, name in METHODS:
        d = hashlib.sha256('\n'.join(skels[(cls, name)]).encode()).hexdigest()[:24]
        rows.append(f'  ({coq_str(cls + "." + name)}, {coq_str(d)})')
    L.append(';\n'.join(rows) + '].')
    for cls, name in METHODS:
        ident = ('skel_' + cls + '_' + name).replace('__', '_').replace('__', '_')
        L.append(f'Definition {ident} : list string := [')
        L.append(';\n'.join('  ' + coq_str(x) for x in skels[(cls, name)]) + '].')
    return '\n'.join(L) + '\n'
