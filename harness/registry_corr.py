"""Concurrency layer of C07 / C09: the extracted Coq model coq/Registry (listener, reaper and
sub-server threads sharing TFTPSubServers._alive under _lock) against the REAL class
nobodd.tftpd.TFTPSubServers driven by a deterministic scheduler.

nobodd.tftpd's Thread / Lock / Event are replaced, for the duration of one run, by shims that
hand control to a central scheduler before every primitive operation; `_alive` is replaced by
an instrumented dict; the sub-servers are fakes that implement serve_forever / shutdown with
the flag + event protocol of socketserver.BaseServer and deliver a client ERROR through the
real TFTPSubHandler.do_ERROR.  Real threads run, exactly one at a time.

Per seeded case (list of tids to add, close or not, schedule of (thread, choice)):
  (correspondence) the trace of visible events and the final state equal the model's;
  (oracle) the statements themselves on the real run: every dictionary operation is done by
      the holder of _lock; add never stores over a live entry; nobody is stuck at the end;
      every transfer whose done flag is set is removed (thread ended, source closed, not in
      _alive); after close() nothing is left; serve_forever is given poll_interval=0.01."""
import threading, json
import lib

SPEC_THEOREMS = {
    'registry_source_facts_hold': 'facts regenerated from tftpd.py: digests of __init__/close/add/_remove/run/server_close, every '
                                  '_alive access inside `with self._lock` (or in _remove, called only from such blocks), entry points '
                                  'do_RRQ->add and server_close->close only, no .shutdown( / ._remove( in TFTPHandler / TFTPSubHandler / '
                                  'TFTPSubServer / TFTPClientState, intervals 10 ms, join time-outs 10 s',
    'alive_only_under_lock': 'full, any number of transfers, every interleaving: each operation on _alive is done by the lock holder, '
                             '_alive changes only through them, run() is never left by an exception',
    'no_deadlock': 'full: every reachable state has an enabled thread or everything has ended (hypothesis: no self-shutdown, from the source facts)',
    'finished_is_reaped': 'full under fair rounds: a registered transfer with done set is removed within S(phi) rounds (thread returned, '
                          'source closed, not in _alive) and stays so',
    'add_replaces': 'full: one entry per tid; the store happens only with the tid absent and every formerly registered sub-server outside '
                    '_alive shut down completely; from the pop the listener reaches the store only through the close step',
    'close_drains': 'full: when close() has returned _alive is empty, run() has ended, every sub-server thread has returned and is closed',
    'listener_progress': 'full under fair rounds: every own step lowers lam (<= 12 per add); a blocked listener is enabled again within '
                         'S(phi6) rounds (phi6 = rest of the lock holder\'s section, 5 per transfer being removed, + distance of the '
                         'sub-server threads from returning)',
    'self_shutdown_deadlock_refuted': 'witness: with a self-shutdown transition the 18-step schedule ends with every thread blocked',
}
TRUSTED = [
    'Coq 8.16.1 kernel; vm_compute only in Registry/ProofsEx.v',
    'translator harness/gen_registry.py (lexical facts; a call reached through another object or getattr is outside it)',
    'modelled, not verified: threading.Lock / Event / Thread.join semantics, socketserver.BaseServer.serve_forever / shutdown (flag + '
    'event, re-implemented by the fake sub-servers), atomicity of single dict operations under the GIL',
    'hypotheses of the progress theorems: fair rounds (every thread gets a turn per round; a turn of a sub-server thread is one step of '
    'its poll loop, i.e. a shutdown request is seen within one poll interval), joins never time out (10 s)',
    'the scheduling shim of harness/registry_corr.py',
]

PH = dict(NotStarted=0, SClear=1, STest=2, SPoll=3, SHandle=4, SSelfReq=5, SSelfWait=6, SFin1=7, SFin2=8, SExit=9, Returned=10)
EVN = {0: 'add() called', 1: 'lock acquired', 2: 'lock released', 3: '_alive.pop', 4: '_alive[tid] = ..', 5: '_alive.items()',
       6: 'read server.done', 7: 'bool(_alive)', 8: 'next(iter(_alive))', 9: 'shutdown(): flag set', 10: 'shutdown(): wait returned',
       11: 'thread.join returned', 12: 'client_state.close()', 13: 'thread.start()', 14: '_done.set()', 15: '_done.wait(0.01)',
       16: 'close(): join returned', 17: 'sub-server step', 18: 'run() left by exception', 20: 'blocked', 21: 'join timed out', 22: 'nothing to do'}


class Abort(BaseException):
    pass


class Attach(Exception):
    pass


class Sched:
    def __init__(self, nsubs):
        self.n = 2 + nsubs
        self.go = [threading.Semaphore(0) for _ in range(self.n)]
        self.done = [threading.Semaphore(0) for _ in range(self.n)]
        self.fresh = [True] * self.n
        self.started = [False] * self.n      # thread exists and runs under the scheduler
        self.finished = [False] * self.n
        self.crashed = [None] * self.n
        self.ev = []
        self.ident = {}
        self.choice = 0
        self.abort = False
        self.lock_holder = None
        self.problems = []
        self.nthreads_made = 0

    def me(self):
        i = self.ident.get(threading.get_ident())
        if i is None:
            raise Attach('a thread unknown to the scheduler reached a primitive operation')
        return i

    def sync(self, i):
        if self.fresh[i]:
            self.fresh[i] = False
        else:
            self.done[i].release()
        self.go[i].acquire()
        if self.abort:
            raise Abort()

    def finish(self, i, crash=None):
        self.finished[i] = True
        self.crashed[i] = crash
        if not self.abort and not self.fresh[i]:
            self.done[i].release()

    def grant(self, i, c, timeout=5.0):
        self.choice = c
        self.ev = []
        self.go[i].release()
        if not self.done[i].acquire(timeout=timeout):
            return None
        return self.ev

    def kill(self):
        self.abort = True
        for s in self.go:
            for _ in range(3):
                s.release()


class ShimLock:
    def __init__(self, S):
        self.S = S

    def acquire(self, blocking=True, timeout=-1):
        S = self.S
        i = S.me()
        while True:
            S.sync(i)
            if S.lock_holder is None:
                S.lock_holder = i
                S.ev.append([1])
                return True
            S.ev.append([20])

    def release(self):
        S = self.S
        i = S.me()
        S.sync(i)
        S.lock_holder = None
        S.ev.append([2])

    def __enter__(self):
        self.acquire()
        return self

    def __exit__(self, et, ev, tb):
        if et is not None:                 # leaving by an exception: released as part of the same step
            self.S.lock_holder = None
            return False
        self.release()
        return False


class ShimEvent:
    def __init__(self, S):
        self.S = S
        self.flag = False

    def set(self):
        i = self.S.me()
        self.S.sync(i)
        self.flag = True
        self.S.ev.append([14])

    def is_set(self):
        return self.flag

    def wait(self, timeout=None):
        i = self.S.me()
        if timeout is None:
            raise Attach('untimed Event.wait in TFTPSubServers')
        self.S.sync(i)
        self.S.ev.append([15, int(self.flag)])
        self.S.wait_timeouts.append(timeout)
        return self.flag


class ShimThread:
    """threading.Thread as seen by TFTPSubServers.add"""
    def __init__(self, S, run, target=None, kwargs=None, args=()):
        self.S, self.run = S, run
        self.k = S.nthreads_made
        S.nthreads_made += 1
        self.target, self.kwargs, self.args = target, dict(kwargs or {}), args
        self.real = None
        run.thread_of[self.k] = self

    def start(self):
        S = self.S
        i = S.me()
        S.sync(i)
        idx = 2 + self.k
        if idx >= S.n:
            raise Attach('more sub-server threads than sub-servers')
        self.real = threading.Thread(target=self._main, args=(idx,), daemon=True)
        S.started[idx] = True
        if self.k < len(self.run.fakes):
            self.run.fakes[self.k].ph = 'SClear'
        S.ev.append([13, self.k])
        self.real.start()

    def _main(self, idx):
        S = self.S
        S.ident[threading.get_ident()] = idx
        srv = self.run.fakes[self.k] if self.k < len(self.run.fakes) else None
        crash = None
        try:
            self.target(*self.args, **self.kwargs)
            S.sync(idx)
            if srv is not None:
                srv.ph = 'Returned'
            S.ev.append([17, PH['SExit'], 0])
        except Abort:
            return
        except BaseException as e:      # noqa: BLE001
            crash = repr(e)
        S.finish(idx, crash)

    def is_alive(self):
        return self.real is not None and not self.S.finished[2 + self.k]

    def join(self, timeout=None):
        S = self.S
        i = S.me()
        if self.real is None:
            raise RuntimeError('cannot join thread before it is started')
        while True:
            S.sync(i)
            if S.finished[2 + self.k]:
                S.ev.append([11, self.k])
                S.join_timeouts.append(timeout)
                return
            S.ev.append([20])


class FakeState:
    def __init__(self, srv, address):
        self.srv, self.address, self.closed = srv, address, 0

    def close(self):
        S = self.srv.S
        i = S.me()
        S.sync(i)
        self.closed += 1
        S.ev.append([12, self.srv.k])


class FakeServer:
    """stands in for TFTPSubServer: serve_forever / shutdown with the protocol of socketserver.BaseServer"""
    def __init__(self, S, run, k, tid):
        self.S, self.run, self.k, self.tid = S, run, k, tid
        self.server_address = ('srv', tid)
        self.client_state = FakeState(self, ('cli', 0))
        self._done = False
        self._shutdown_request = False
        self._is_shut_down = False
        self.ph = 'NotStarted'
        self.poll = None
        self.logger = run.T.TFTPSubServer.logger

    @property
    def done(self):
        S = self.S
        i = S.me()
        S.sync(i)
        S.ev.append([6, self.k, int(self._done)])
        S.dict_op(i, 'read of server.done while iterating _alive')
        return self._done

    @done.setter
    def done(self, v):
        self._done = bool(v)

    def serve_forever(self, poll_interval=0.5):
        S, idx = self.S, 2 + self.k
        self.poll = poll_interval
        S.sync(idx)
        self._is_shut_down = False
        self.ph = 'STest'
        S.ev.append([17, PH['SClear'], 0])
        try:
            while True:
                S.sync(idx)
                r = self._shutdown_request
                self.ph = 'SFin1' if r else 'SPoll'
                S.ev.append([17, PH['STest'], int(r)])
                if r:
                    break
                S.sync(idx)
                r = self._shutdown_request
                self.ph = 'SFin1' if r else 'SHandle'
                S.ev.append([17, PH['SPoll'], int(r)])
                if r:
                    break
                S.sync(idx)
                c = S.choice
                self.ph = 'STest'
                if c >= 1:
                    # a client ERROR datagram arrives: the real handler method runs in this thread
                    h = object.__new__(self.run.T.TFTPSubHandler)
                    h.server, h.client_address = self, self.client_state.address
                    S.ev.append([17, PH['SHandle'], 1])
                    h.do_ERROR(None)
                    if not self._done:
                        S.problems.append(('error-does-not-end-transfer', 'TFTPSubHandler.do_ERROR did not set server.done'))
                else:
                    S.ev.append([17, PH['SHandle'], 0])
        finally:
            if not S.abort:
                S.sync(idx)
                self._shutdown_request = False
                self.ph = 'SFin2'
                S.ev.append([17, PH['SFin1'], 0])
                S.sync(idx)
                self._is_shut_down = True
                self.ph = 'SExit'
                S.ev.append([17, PH['SFin2'], 0])

    def shutdown(self):
        S = self.S
        i = S.me()
        own = (i == 2 + self.k)
        if own:
            self.ph = 'SSelfReq'
        S.sync(i)
        self._shutdown_request = True
        if own:
            self.ph = 'SSelfWait'
            S.ev.append([17, PH['SSelfReq'], 0])
        else:
            S.ev.append([9, self.k])
        while True:
            S.sync(i)
            if self._is_shut_down:
                S.ev.append([17, PH['SSelfWait'], 1] if own else [10, self.k])
                if own:
                    self.ph = 'STest'
                return
            S.ev.append([20])


class SDict(dict):
    """_alive with every operation announced to the scheduler"""
    def bind(self, S, run):
        self.S, self.run = S, run
        return self

    def _num(self, tid):
        try:
            return tid[0][1]
        except Exception:
            return 999

    def pop(self, key, *default):
        S = self.S
        i = S.me()
        S.sync(i)
        found = dict.__contains__(self, key)
        S.ev.append([3, self._num(key), int(found)])
        S.dict_op(i, '_alive.pop')
        return dict.pop(self, key, *default)

    def __setitem__(self, key, value):
        S = self.S
        i = S.me()
        S.sync(i)
        srv = value[0]
        S.ev.append([4, self._num(key), getattr(srv, 'k', 999)])
        S.dict_op(i, '_alive[tid] = ...')
        self.run.on_store(key, srv, dict.__contains__(self, key))
        dict.__setitem__(self, key, value)

    def items(self):
        S = self.S
        i = S.me()
        S.sync(i)
        S.ev.append([5])
        S.dict_op(i, '_alive.items()')
        return dict.items(self)

    def __len__(self):
        S = self.S
        if threading.get_ident() not in S.ident:
            return dict.__len__(self)
        i = S.me()
        S.sync(i)
        S.ev.append([7, dict.__len__(self)])
        S.dict_op(i, 'bool(_alive)')
        return dict.__len__(self)

    def __iter__(self):
        S = self.S
        if threading.get_ident() not in S.ident:
            return dict.__iter__(self)
        i = S.me()
        S.sync(i)
        first = next(dict.__iter__(self), None)
        S.ev.append([8, self._num(first)] if first is not None else [18])
        S.dict_op(i, 'iter(_alive)')
        return dict.__iter__(self)


class ImplRun:
    """one TFTPSubServers of the implementation, driven step by step"""
    def __init__(self, adds, close):
        import nobodd.tftpd as T
        self.T = T
        self.adds, self.close = list(adds), bool(close)
        self.S = S = Sched(len(adds))
        S.wait_timeouts, S.join_timeouts = [], []
        self.fakes, self.thread_of = [], {}
        self.store_problems = []

        def dict_op(i, what):
            if S.lock_holder != i:
                S.problems.append(('dict-without-lock', f'thread {i} did {what} while _lock was held by {S.lock_holder}'))
        S.dict_op = dict_op
        run = self

        class Subs(T.TFTPSubServers):
            def start(self_):
                self_.daemon = True
                T.TFTPSubServers.start(self_)

            def run(self_):
                S.ident[threading.get_ident()] = 1
                crash = None
                try:
                    T.TFTPSubServers.run(self_)
                except Abort:
                    return
                except BaseException as e:      # noqa: BLE001
                    crash = repr(e)
                    if S.lock_holder == 1:
                        S.lock_holder = None
                    S.ev.append([18])
                S.finish(1, crash)

            def join(self_, timeout=None):
                i = S.me()
                while True:
                    S.sync(i)
                    if S.finished[1]:
                        S.ev.append([16])
                        S.join_timeouts.append(timeout)
                        return
                    S.ev.append([20])

        self.saved = (T.Thread, T.Lock, T.Event)
        T.Thread = lambda *a, **k: ShimThread(S, run, *a, **k)
        T.Lock = lambda: ShimLock(S)
        T.Event = lambda: ShimEvent(S)
        try:
            self.subs = Subs()
            if not isinstance(self.subs._lock, ShimLock) or not isinstance(self.subs._done, ShimEvent) \
                    or type(self.subs._alive) is not dict or self.subs._alive:
                raise Attach('TFTPSubServers.__init__ does not create _done = Event(), _lock = Lock(), _alive = {}')
            self.subs._alive = SDict().bind(S, self)
        except Exception:
            self.restore()
            raise
        S.started[0] = S.started[1] = True
        self.worker = threading.Thread(target=self.listener, daemon=True)
        self.worker.start()

    def restore(self):
        T = self.T
        T.Thread, T.Lock, T.Event = self.saved

    def on_store(self, key, srv, present):
        if present:
            self.S.problems.append(('add-overwrites-entry', f'add stored tid {key} over an entry that was still in _alive'))
        for f in self.fakes:
            if f is not srv and f.tid == srv.tid and f.ph != 'NotStarted' and \
                    not (f.ph == 'Returned' and f.client_state.closed):
                self.S.problems.append(('add-leaves-live-transfer',
                                        f'add registered a second transfer for tid {key} while sub-server {f.k} of the same tid '
                                        f'is not shut down (phase {f.ph}, closed {f.client_state.closed})'))

    def listener(self):
        S = self.S
        S.ident[threading.get_ident()] = 0
        crash = None
        try:
            for k, tid in enumerate(self.adds):
                S.sync(0)
                f = FakeServer(S, self, k, tid)
                self.fakes.append(f)
                S.ev.append([0, tid])
                self.subs.add(f)
            if self.close:
                self.subs.close()
        except Abort:
            return
        except BaseException as e:      # noqa: BLE001
            crash = repr(e)
        S.finish(0, crash)

    def step(self, i, c):
        S = self.S
        if i >= S.n:
            return [22]
        if S.finished[i]:
            return [22]
        if not S.started[i]:
            return [20]                     # Thread object not started yet (or not even built)
        evs = S.grant(i, c)
        if evs is None:
            return 'hang'
        if len(evs) != 1:
            if S.finished[i] and not evs:
                return [22]
            return ['multi'] + evs
        return evs[0]

    def final(self):
        S = self.S
        al = [[k[0][1], v[0].k] for k, v in dict.items(self.subs._alive)]
        subs = []
        for k in range(len(self.adds)):
            if k < len(self.fakes):
                f = self.fakes[k]
                subs.append([PH[f.ph], int(f._done), int(f._shutdown_request), int(f._is_shut_down), int(f.client_state.closed > 0)])
            else:
                subs.append([0, 0, 0, 0, 0])
        started = sum(1 for k in range(len(self.adds)) if S.started[2 + k])
        return dict(lock=S.lock_holder, alive=al, subs=subs, devt=int(self.subs._done.flag), nadd=started)

    def shutdown(self):
        self.S.kill()
        self.restore()


def run_impl(adds, close, schedule, selfsd_choice=1, drain_rounds=None):
    """drive the implementation with `schedule`, then round-robin until quiet.
    Returns dict(events, schedule (as executed, with the choices the model needs), final, problems, ...)"""
    r = ImplRun(adds, close)
    S = r.S
    n = S.n
    out = dict(adds=list(adds), close=bool(close), events=[], schedule=[], problems=[], contended=False, removed=0, stuck=False)
    acc = []            # the reaper's to_remove, as the model builds it

    def one(i, c):
        e = r.step(i, c)
        cm = c
        if e != 'hang' and e and e[0] == 6 and e[2]:
            acc.append(r.fakes[e[1]].tid)
        if e != 'hang' and e and e[0] == 5:
            del acc[:]
        if e != 'hang' and e and e[0] == 3 and i == 1 and e[1] in acc:
            cm = acc.index(e[1])                       # which element of the set came next
            acc.pop(cm)
        if e != 'hang' and e and e[0] == 17 and e[1] == PH['SHandle']:
            cm = 0 if not e[2] else selfsd_choice
        out['schedule'].append([i, cm])
        out['events'].append(e)
        if e == 'hang':
            out['problems'].append(('hang', f'thread {i} did not come back to the scheduler (blocked outside the primitives)'))
        elif e[0] == 20:
            out['contended'] = True
        elif e[0] == 12:
            out['removed'] += 1
        elif e[0] == 'multi':
            out['problems'].append(('granularity', f'thread {i} did several primitive operations in one turn: {e[1:]}'))
        return e

    try:
        for i, c in schedule:
            if one(i, c) == 'hang' or len(S.problems) > 3:
                break
        if not out['problems']:
            # drain: fair rounds until everybody has ended, or nothing more is owed
            budget = drain_rounds if drain_rounds is not None else 40 * (len(adds) + 2)
            quiet = 0
            while budget > 0:
                budget -= 1
                moved = False
                for i in range(n):
                    if S.finished[i]:
                        continue
                    e = one(i, 0)
                    if e == 'hang':
                        budget = -1
                        break
                    if e[0] not in (20, 22):
                        moved = True
                if budget < 0:
                    break
                if all(S.finished):
                    break
                if not moved:
                    out['stuck'] = True
                    break
                if not close and S.finished[0] and owed(r) == [] and S.lock_holder is None:
                    quiet += 1
                    if quiet >= 2:
                        break
        out['final'] = r.final()
        out['finished'] = list(S.finished)
        out['crashed'] = list(S.crashed)
        evaluate(r, out)
    finally:
        r.shutdown()
    return out


def owed(r):
    """transfers whose done flag is set and that are not yet completely removed"""
    live = {v[0].k for v in dict.values(r.subs._alive)}
    return [f.k for f in r.fakes if f._done and (f.k in live or f.ph != 'Returned' or not f.client_state.closed)]


def evaluate(r, out):
    """the statements of the properties, on the implementation run"""
    S = r.S
    P = out['problems']
    P.extend(S.problems)
    for i, c in enumerate(S.crashed):
        if c is not None:
            who = 'listener' if i == 0 else 'reaper (run())' if i == 1 else f'sub-server thread {i - 2}'
            P.append(('thread-crashed', f'{who} raised {c}'))
    if any(p[0] in ('hang', 'granularity') for p in P):
        return
    live = {v[0].k for v in dict.values(r.subs._alive)}
    if out['stuck']:
        where = []
        for i in range(S.n):
            if not S.finished[i] and S.started[i]:
                where.append(f'thread {i}')
        P.append(('deadlock', 'no thread can move but not everything has ended: ' + ', '.join(where) +
                  f' blocked; _lock held by {S.lock_holder}'))
        return
    if r.close and S.finished[0] and S.crashed[0] is None:
        left = [f.k for f in r.fakes if f.ph not in ('Returned', 'NotStarted') or (f.ph == 'Returned' and not f.client_state.closed)]
        if live or left or not S.finished[1]:
            P.append(('left-after-close', f'close() returned with _alive = {sorted(live)}, sub-servers not ended/closed {left}, '
                                          f'reaper ended: {S.finished[1]}'))
    if not r.close:
        o = owed(r)
        if o and S.finished[0]:
            P.append(('finished-not-reaped', f'sub-servers {o} have done set but after the fair drain are still registered / running / open'))
    for f in r.fakes:
        if f.poll is not None and abs(f.poll - 0.01) > 1e-9:
            P.append(('poll-interval', f'serve_forever was started with poll_interval={f.poll}'))
        if f.client_state.closed > 1:
            P.append(('closed-twice', f'client_state.close() called {f.client_state.closed} times for sub-server {f.k}'))
    if any(abs(t - 0.01) > 1e-9 for t in S.wait_timeouts):
        P.append(('reaper-wait', f'_done.wait called with {set(S.wait_timeouts)}'))
    if any(t != 10 for t in S.join_timeouts):
        P.append(('join-timeout', f'join called with timeouts {set(S.join_timeouts)}'))


def model_run(R, adds, close, schedule):
    v = R.call('run', (list(adds), int(bool(close)), [list(x) for x in schedule]))
    events, st = v
    lockh, alive, subs, devt, lp, rp, nadd, stuck, term = st
    return dict(events=[list(e) for e in events],
                final=dict(lock=(lockh[0] if lockh else None), alive=[list(a) for a in alive],
                           subs=[list(s) for s in subs], devt=int(devt), nadd=int(nadd)),
                stuck=bool(stuck), terminated=bool(term), lp=list(lp), rp=list(rp))


def describe(e):
    if e == 'hang':
        return 'hang'
    return f'{EVN.get(e[0], e[0])} {e[1:]}' if len(e) > 1 else str(EVN.get(e[0], e[0]))


def compare(impl, model):
    for k, (a, b) in enumerate(zip(impl['events'], model['events'])):
        if a == 'hang':
            return None
        if list(a) != list(b):
            return f'step {k} (thread {impl["schedule"][k][0]}): implementation "{describe(a)}", model "{describe(b)}"'
    if impl['problems']:
        return None
    if impl['final'] != model['final']:
        return f'final state: implementation {impl["final"]}, model {model["final"]}'
    if impl['stuck'] != model['stuck']:
        return f'stuck: implementation {impl["stuck"]}, model {model["stuck"]}'
    return None


def gen_case(rng):
    n = rng.choice((1, 2, 2, 3, 3, 4))
    pool = rng.choice(([7, 8, 9, 10], [7, 7, 8], [7]))
    adds = [rng.choice(pool) for _ in range(n)]
    close = rng.random() < 0.6
    length = rng.choice((0, 10, 25, 40, 70, 120))
    sched = []
    while len(sched) < length:
        i = rng.randrange(2 + n)
        burst = rng.choice((1, 1, 2, 3, 5, 8, 13))
        for _ in range(burst):
            sched.append([i, 1 if (i >= 2 and rng.random() < 0.25) else 0])
    return adds, close, sched[:length]


# the schedule of Example self_shutdown_deadlock_refuted in Registry/ProofsEx.v
SELFSD = ([7, 9], False,
          [[0, 0]] * 6 + [[2, 0], [2, 0], [2, 0], [2, 2], [2, 0]] + [[1, 0]] * 6 + [[0, 0]])
# the reaper is between items() and the removals while the listener adds (visible only if the scan is not under the lock)
SCAN_RACE = ([7, 8], False,
             [[0, 0]] * 6 + [[2, 0], [2, 0], [2, 0], [2, 1]] + [[1, 0], [1, 0], [1, 0]] + [[0, 0]] * 5 + [[1, 0]] * 4)
REPLACE = ([7, 7], False,
           [[0, 0]] * 6 + [[2, 0]] * 4 + [[0, 0]] * 5 + [[2, 0]] * 4 + [[0, 0]] * 6)


def check_case(ctx, R, adds, close, schedule, kind, selfsd_choice):
    impl = run_impl(adds, close, schedule, selfsd_choice)
    nontrivial = impl['contended'] or impl['removed'] > 0
    ctx.case((adds, close, impl['schedule']), nontrivial, kind)
    rep = dict(adds=adds, close=close, schedule=impl['schedule'],
               threads='0 listener, 1 reaper, 2+k thread of the k-th sub-server',
               trace=[f'{impl["schedule"][k][0]}: {describe(e)}' for k, e in enumerate(impl['events'])][:300])
    for sig, what in impl['problems'][:3]:
        ctx.violation('tftpd.registry/' + sig, what + f'  [add tids {adds}, close={close}]', dict(rep, problem=sig, what=what))
    if R is not None:
        model = model_run(R, adds, close, impl['schedule'])
        diff = compare(impl, model)
        if diff:
            mm = ctx.extra.setdefault('registry_model_mismatches', [])
            if len(mm) < 5:
                mm.append(dict(what=diff, adds=adds, close=close, schedule=impl['schedule'],
                               impl_trace=rep['trace'][:120], model_trace=[describe(e) for e in model['events']][:120]))
            ctx.stat('registry-model-mismatch')
    return impl


def run(ctx):
    import nobodd.tftpd as T
    rng = ctx.rng
    old_hook = threading.excepthook
    threading.excepthook = lambda a: None
    import logging
    lvl = T.TFTPBaseServer.logger.level
    T.TFTPBaseServer.logger.setLevel(logging.CRITICAL)
    R = ctx.try_runner('Registry')
    selfsd_choice = 1
    try:
        if R is not None:
            facts = R.call('facts', [])
            ctx.extra['registry_source_facts'] = dict(
                all=bool(facts[0]), no_self_shutdown=bool(facts[1]), alive_only_in_lock_blocks=bool(facts[2]),
                remove_only_in_lock_blocks=bool(facts[3]), entry_points_ok=bool(facts[4]), digests_match=bool(facts[5]),
                sub_poll_ms=int(facts[6]), reaper_wait_ms=int(facts[7]), remove_join_s=int(facts[8]), close_join_s=int(facts[9]))
            if not bool(facts[1]):
                selfsd_choice = 2
        for adds, close, sched in (SELFSD, SCAN_RACE, REPLACE):
            check_case(ctx, R, adds, close, [list(x) for x in sched], 'scripted', selfsd_choice)
        n = 1500 if ctx.thorough else 300
        if getattr(ctx, 'widen', False):
            n = max(n, 800)
        for k in range(n):
            adds, close, sched = gen_case(rng)
            impl = check_case(ctx, R, adds, close, sched, f'random-{len(adds)}-transfers', selfsd_choice)
            if k < 2:
                ctx.sample(dict(adds=adds, close=close, schedule=impl['schedule'][:40], steps=len(impl['events']),
                                compared='event trace + final state; lock discipline, no stuck thread, done => removed, empty after close'))
            if len(ctx.violations) >= 6 or ctx.stats.get('registry-model-mismatch', 0) >= 25:
                break
    except Attach as exc:
        ctx.violation('tftpd.registry/attach', f'cannot drive nobodd.tftpd.TFTPSubServers: {exc}', dict(problem='attach', what=str(exc)))
    finally:
        threading.excepthook = old_hook
        T.TFTPBaseServer.logger.setLevel(lvl)
    mm = ctx.extra.get('registry_model_mismatches')
    if mm and not ctx.violations:
        raise lib.BuildError('registry: implementation and model traces disagree (no input violating the property itself was found): ' +
                             json.dumps(mm[0])[:3000])
