#!/bin/sh
# run inside a `vp run` snapshot: test all seeded changes against a scratch worktree of /repo HEAD
set -u
WT=/tmp/seed-wt-$$
git -C /repo worktree add -q --detach $WT HEAD || exit 2
export NOBODD_REPO=$WT SEED_VERIF=$(pwd) SEED_OUT=${SEED_OUT:-/verif/seeded}
./setup.sh > setup.log 2>&1
/venv/bin/python harness/seedtest.py "$@"
git -C /repo worktree remove --force $WT
