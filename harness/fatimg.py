"""Independent FAT12/16/32 image synthesis (no nobodd code involved): formatter, a small
writer that places files / directories / long names / deliberate oddities, and the
expected tree it built.  Used to feed both nobodd and the extracted Coq spec reader."""
import struct, random


def lfn_checksum(name11):
    s = 0
    for c in name11:
        s = (((s & 1) << 7) + (s >> 1) + c) & 0xFF
    return s


class Geometry:
    def __init__(self, fat_type, n_clusters, spc=1, bps=512, nfats=2, reserved=None, root_entries=64,
                 extra_fat_entries=0, fsinfo=True, type_string=True, total32=False, info_sector=1):
        self.fat_type, self.n_clusters, self.spc, self.bps, self.nfats = fat_type, n_clusters, spc, bps, nfats
        self.reserved = reserved if reserved is not None else (32 if fat_type == 'fat32' else 1)
        self.root_entries = 0 if fat_type == 'fat32' else root_entries
        self.bits = {'fat12': 12, 'fat16': 16, 'fat32': 32}[fat_type]
        entries = n_clusters + 2 + extra_fat_entries
        fat_bytes = (entries * self.bits + 7) // 8
        self.fat_sectors = (fat_bytes + bps - 1) // bps
        self.root_sectors = (self.root_entries * 32 + bps - 1) // bps
        self.total = self.reserved + nfats * self.fat_sectors + self.root_sectors + n_clusters * spc
        self.fsinfo, self.type_string, self.total32, self.info_sector = fsinfo, type_string, total32, info_sector
        self.cs = bps * spc
        self.fat_off = self.reserved * bps
        self.root_off = self.fat_off + nfats * self.fat_sectors * bps
        self.data_off = self.root_off + self.root_sectors * bps
        self.fat_entries = self.fat_sectors * bps * 8 // self.bits


def mkfat(g):
    img = bytearray(g.total * g.bps)
    small = g.total < 65536 and g.fat_type != 'fat32' and not g.total32
    bpb = struct.pack('<3s8sHBHBHHBHHHII', b'\xeb\x3c\x90', b'verif   ', g.bps, g.spc, g.reserved, g.nfats,
                      g.root_entries, g.total if small else 0, 0xF8,
                      0 if g.fat_type == 'fat32' else g.fat_sectors, 32, 64, 0, 0 if small else g.total)
    img[0:len(bpb)] = bpb
    off = len(bpb)
    fstype = {'fat12': b'FAT12   ', 'fat16': b'FAT16   ', 'fat32': b'FAT32   '}[g.fat_type] if g.type_string else b'        '
    if g.fat_type == 'fat32':
        e32 = struct.pack('<IHHIHH12x', g.fat_sectors, 0, 0, 2, g.info_sector if g.fsinfo else 0, 6)
        img[off:off + len(e32)] = e32
        off += len(e32)
    ebpb = struct.pack('<BxB4s11s8s', 0x80, 0x29, b'\x12\x34\x56\x78', b'NO NAME    ', fstype)
    img[off:off + len(ebpb)] = ebpb
    img[510:512] = b'\x55\xaa'
    for i in range(g.nfats):
        o = g.fat_off + i * g.fat_sectors * g.bps
        if g.fat_type == 'fat12':
            img[o:o + 3] = b'\xf8\xff\xff'
        elif g.fat_type == 'fat16':
            img[o:o + 4] = b'\xf8\xff\xff\xff'
        else:
            img[o:o + 8] = struct.pack('<II', 0x0ffffff8, 0x0fffffff)
    return img


class Builder:
    """writes structures directly; keeps the expected tree"""
    def __init__(self, g, rng=None, fragment=False):
        self.g, self.rng, self.fragment = g, rng or random.Random(0), fragment
        self.img = mkfat(g)
        self.free = list(range(2, g.n_clusters + 2))
        if fragment:
            self.rng.shuffle(self.free)
        self.tree = {'kind': 'dir', 'name': '', 'children': [], 'cluster': 0}
        self.dirs = {id(self.tree): {'slots': [], 'chain': None}}
        self._pending_orphan = {}      # directory -> checksum of an orphaned long-name run planted last
        if g.fat_type == 'fat32':
            c = self._alloc(1)
            assert c == [2] or fragment
            if c != [2]:
                struct.pack_into('<I', self.img, 36 + 8, c[0])
            self.dirs[id(self.tree)]['chain'] = c
            self.tree['cluster'] = c[0]
            self._zero(c)
        self.finish()

    # --- FAT ---
    def get(self, n, copy=0):
        o = self.g.fat_off + copy * self.g.fat_sectors * self.g.bps
        if self.g.bits == 12:
            v = struct.unpack_from('<H', self.img, o + n + (n >> 1))[0]
            return v >> 4 if n & 1 else v & 0xFFF
        if self.g.bits == 16:
            return struct.unpack_from('<H', self.img, o + 2 * n)[0]
        return struct.unpack_from('<I', self.img, o + 4 * n)[0] & 0x0FFFFFFF

    def set(self, n, v, copies=None):
        for k in (range(self.g.nfats) if copies is None else copies):
            o = self.g.fat_off + k * self.g.fat_sectors * self.g.bps
            if self.g.bits == 12:
                p = o + n + (n >> 1)
                old = struct.unpack_from('<H', self.img, p)[0]
                new = (old & 0x000F) | (v << 4) if n & 1 else (old & 0xF000) | v
                struct.pack_into('<H', self.img, p, new)
            elif self.g.bits == 16:
                struct.pack_into('<H', self.img, o + 2 * n, v)
            else:
                old = struct.unpack_from('<I', self.img, o + 4 * n)[0]
                struct.pack_into('<I', self.img, o + 4 * n, (old & 0xF0000000) | v)

    @property
    def eoc(self):
        return {12: 0xFFF, 16: 0xFFFF, 32: 0x0FFFFFFF}[self.g.bits]

    def _alloc(self, n):
        if n > len(self.free):
            raise MemoryError('volume full')
        cs, self.free = self.free[:n], self.free[n:]
        for a, b in zip(cs, cs[1:]):
            self.set(a, b)
        if cs:
            self.set(cs[-1], self.eoc)
        return cs

    def _zero(self, chain):
        for c in chain:
            o = self.coff(c)
            self.img[o:o + self.g.cs] = bytes(self.g.cs)

    def coff(self, c):
        return self.g.data_off + (c - 2) * self.g.cs

    def write_chain(self, chain, data):
        for i, c in enumerate(chain):
            part = data[i * self.g.cs:(i + 1) * self.g.cs]
            o = self.coff(c)
            self.img[o:o + len(part)] = part

    # --- directories ---
    def _dir_slot_offset(self, d, idx):
        info = self.dirs[id(d)]
        if info['chain'] is None:
            if idx >= self.g.root_entries:
                raise MemoryError('root full')
            return self.g.root_off + idx * 32
        per = self.g.cs // 32
        while idx // per >= len(info['chain']):
            new = self._alloc(1)
            self._zero(new)
            self.set(info['chain'][-1], new[0])
            info['chain'].append(new[0])
        return self.coff(info['chain'][idx // per]) + (idx % per) * 32

    def _put(self, d, rec):
        info = self.dirs[id(d)]
        idx = len(info['slots'])
        o = self._dir_slot_offset(d, idx)
        self.img[o:o + 32] = rec
        info['slots'].append(bytes(rec))
        return idx

    @staticmethod
    def short_rec(name8, ext3, attr, cluster, size, attr2=0, times=None, bits32=False):
        cd, ct, ccs, ad, md, mt = times or (0x5821, 0x6000, 100, 0x5822, 0x5823, 0x7000)
        return struct.pack('<8s3sBBBHHHHHHHI', name8, ext3, attr, attr2, ccs, ct, cd, ad,
                           (cluster >> 16) if bits32 else 0, mt, md, cluster & 0xFFFF, size)

    @staticmethod
    def lfn_recs(name, name11, checksum=None):
        u = name.encode('utf-16-le')
        units = [u[i:i + 2] for i in range(0, len(u), 2)]
        if len(units) % 13:
            units.append(b'\0\0')
        while len(units) % 13:
            units.append(b'\xff\xff')
        cks = lfn_checksum(name11) if checksum is None else checksum
        recs = []
        n = len(units) // 13
        for i in range(n):
            part = b''.join(units[i * 13:(i + 1) * 13])
            seq = (i + 1) | (0x40 if i == n - 1 else 0)
            recs.append(struct.pack('<B10sBxB12sH4s', seq, part[:10], 0x0F, cks, part[10:22], 0, part[22:26]))
        return list(reversed(recs))

    def add(self, parent, name, alias, data=None, is_dir=False, lfn=True, attr2=0, times=None, lead05=False, ro=False):
        """alias: (name8, ext3) bytes padded.  data: bytes for a file.  Returns the tree node."""
        name8, ext3 = alias
        name11 = name8 + ext3
        stored11 = ((b'\x05' + name8[1:]) if lead05 else name8) + ext3
        if not lfn and self._pending_orphan.get(id(parent)) == lfn_checksum(stored11):
            # an "orphaned" run planted just before must stay orphaned: its (deliberately wrong) checksum happens to be
            # this entry's, which would make the run this entry's long name by the rules -- separate them
            self._put(parent, b'\xe5' + self.short_rec(b'SEPARATE', b'   ', 0x20, 0, 0)[1:])
        self._pending_orphan.pop(id(parent), None)
        if lfn:
            for r in self.lfn_recs(name, name11):
                self._put(parent, r)
        if is_dir:
            chain = self._alloc(1)
            self._zero(chain)
            cluster, size = chain[0], 0
        else:
            n = (len(data) + self.g.cs - 1) // self.g.cs
            chain = self._alloc(n)
            self.write_chain(chain, data)
            cluster, size = (chain[0] if chain else 0), len(data)
        rec8 = (b'\x05' + name8[1:]) if lead05 else name8
        attr = 0x10 if is_dir else (0x21 if ro else 0x20)
        rec = self.short_rec(rec8, ext3, attr, cluster, size, attr2, times, self.g.bits == 32)
        self._put(parent, rec)
        sfn = name8.rstrip(b' ') + (b'.' + ext3.rstrip(b' ') if ext3.strip() else b'')
        node = {'kind': 'dir' if is_dir else 'file', 'name': name, 'sfn': sfn.decode('latin-1'), 'attr': attr,
                'size': size, 'cluster': cluster, 'chain': chain, 'children': [] if is_dir else None,
                'data': None if is_dir else bytes(data), 'times': times or (0x5821, 0x6000, 100, 0x5822, 0x5823, 0x7000),
                'attr2': attr2, 'nlfn': len(self.lfn_recs(name, name11)) if lfn else 0}
        parent['children'].append(node)
        if is_dir:
            self.dirs[id(node)] = {'slots': [], 'chain': chain}
            pc = parent['cluster'] if parent is not self.tree else 0
            self._put(node, self.short_rec(b'.       ', b'   ', 0x10, cluster, 0, 0, times, self.g.bits == 32))
            self._put(node, self.short_rec(b'..      ', b'   ', 0x10, pc, 0, 0, times, self.g.bits == 32))
        self.finish()
        return node

    # --- deliberate oddities that a reader must tolerate ---
    def plant_deleted(self, parent, with_lfn=True):
        name11 = b'DELETED TXT'
        if with_lfn:
            for r in self.lfn_recs('deleted file.txt', name11):
                self._put(parent, b'\xe5' + r[1:])
        self._put(parent, b'\xe5' + self.short_rec(b'DELETED ', b'TXT', 0x20, 0, 0)[1:])

    def plant_label(self, parent, label=b'MYLABEL    '):
        self._put(parent, self.short_rec(label[:8], label[8:], 0x08, 0, 0))

    def plant_orphan_run(self, parent, kind):
        """long-name records that do not belong to the following short entry"""
        if kind == 'bad-checksum':
            for r in self.lfn_recs('orphan name that is long.dat', b'ORPHAN~1DAT', checksum=0x5a):
                self._put(parent, r)
            self._pending_orphan[id(parent)] = 0x5a
        elif kind == 'headless':      # run without its 0x40 start record
            for r in self.lfn_recs('headless orphan long name here.bin', b'HEADLE~1BIN')[1:]:
                self._put(parent, r)
        elif kind == 'before-deleted':
            for r in self.lfn_recs('gone but records stay.txt', b'GONEBU~1TXT'):
                self._put(parent, r)
            self._put(parent, b'\xe5' + self.short_rec(b'GONEBU~1', b'TXT', 0x20, 0, 0)[1:])

    def plant_safe_save(self, parent, data=b'new content'):
        """what a VFAT-unaware system leaves after a safe-save (write temp, delete original, rename temp): the LIVE long-name
        records of the deleted original, its deleted short entry, then a live short entry with the SAME 11 bytes and no
        long name of its own.  The run is orphaned (a long-name set names only the entry physically following it), although
        its checksum matches the live entry.  Returns the tree node of the live entry."""
        for r in self.lfn_recs('Quarterly Report 2024.doc', b'QUARTE~1DOC'):
            self._put(parent, r)
        self._put(parent, b'\xe5' + self.short_rec(b'QUARTE~1', b'DOC', 0x20, 0, 0)[1:])
        self._pending_orphan.pop(id(parent), None)
        return self.add(parent, 'QUARTE~1.DOC', (b'QUARTE~1', b'DOC'), data=data, lfn=False)

    def finish(self):
        g = self.g
        if g.fat_type == 'fat32' and g.fsinfo:
            o = g.info_sector * g.bps
            self.img[o:o + 4] = b'RRaA'
            self.img[o + 484:o + 488] = b'rrAa'
            struct.pack_into('<I', self.img, o + 488, len(self.free))
            struct.pack_into('<I', self.img, o + 492, 2)
            self.img[o + 508:o + 512] = b'\0\0\x55\xaa'


def alias_for(name, used):
    """a legal, unique 8.3 alias for the expected tree (independent of nobodd's choice: the
    alias is written by this builder, nobodd only has to read it)"""
    base = ''.join(c for c in name.upper() if c.isalnum())[:6] or 'X'
    ext = ''
    if '.' in name.strip('.'):
        ext = ''.join(c for c in name.rsplit('.', 1)[1].upper() if c.isalnum())[:3]
    base = base.encode('ascii', 'replace').replace(b'?', b'_')
    ext = ext.encode('ascii', 'replace').replace(b'?', b'_')
    for i in range(1, 10000):
        cand = (base[:8 - len(str(i)) - 1] + b'~' + str(i).encode()).ljust(8), ext.ljust(3)
        if cand not in used:
            used.add(cand)
            return cand
    raise RuntimeError


def mbr_wrap(vol, ptype=0x0c, lead_sectors=8, tail=b'', slot=1):
    """a disk image: MBR + gap + volume (+ optional second partition bytes); slot = primary slot (partition number)
    of the volume, slot 1 then holding a small non-FAT partition inside the gap"""
    assert len(vol) % 512 == 0
    disk = bytearray(512 * lead_sectors) + vol + tail
    p1 = struct.pack('<B3sB3sII', 0x80, b'\0\0\0', ptype, b'\0\0\0', lead_sectors, len(vol) // 512)
    if slot != 1:
        assert not tail and lead_sectors >= 4
        disk[446:462] = struct.pack('<B3sB3sII', 0, b'\0\0\0', 0x83, b'\0\0\0', 2, 2)
        disk[446 + 16 * (slot - 1):462 + 16 * (slot - 1)] = p1
        disk[510:512] = b'\x55\xaa'
        return disk
    disk[446:462] = p1
    if tail:
        assert len(tail) % 512 == 0
        disk[462:478] = struct.pack('<B3sB3sII', 0, b'\0\0\0', 0x83, b'\0\0\0', lead_sectors + len(vol) // 512, len(tail) // 512)
    disk[510:512] = b'\x55\xaa'
    return disk
