"""Gen/Resolve.v: how tftpd.SimpleTFTPHandler.resolve_path / SimpleTFTPServer.__init__
use pathlib, how TFTPClientState opens the result, and the exception -> ERROR code
ladder of TFTPBaseHandler.do_RRQ followed by TFTPHandler.handle.  Fail closed."""
import ast
from translate import *

NAME = 'Resolve'

# exception classes the model distinguishes (ids used by Resolve/Model.v)
CLASS_ID = {'BadOptions': 0, 'PermissionError': 1, 'FileNotFoundError': 2, 'OSError': 3,
            'AttributeError': 4, 'ValueError': 5, 'Exception': 6}


def handler_code(h, errors, what):
    """an except-clause that ends in `return ERRORPacket(Error.X, ...)` / `response = ERRORPacket(Error.X, ...)`"""
    if h.type is None or not isinstance(h.type, ast.Name) or h.type.id not in CLASS_ID:
        raise TranslateError(f'{what}: handler for {ast.unparse(h.type) if h.type else "bare except"} not understood')
    last = h.body[-1]
    val = last.value if isinstance(last, (ast.Return, ast.Assign)) else None
    if isinstance(last, ast.Assign) and ast.unparse(last.targets[0]) != 'response':
        val = None
    if not (isinstance(val, ast.Call) and ast.unparse(val.func) == 'ERRORPacket' and val.args
            and isinstance(val.args[0], ast.Attribute) and ast.unparse(val.args[0].value) == 'Error'
            and val.args[0].attr in errors):
        raise TranslateError(f'{what}: handler for {h.type.id} does not end in ERRORPacket(Error.X, ...)')
    for s in h.body[:-1]:
        if not (isinstance(s, ast.Expr) and isinstance(s.value, ast.Call)
                and ast.unparse(s.value.func).startswith('self.server.logger.')):
            raise TranslateError(f'{what}: handler for {h.type.id} does more than log and answer')
    return CLASS_ID[h.type.id], errors[val.args[0].attr]


def emit():
    t = parse('tftpd.py')
    errors = class_consts(find_class(parse('tftp.py'), 'Error'))
    L = [HEADER.format(src='tftpd.py, tftp.py'), 'Open Scope N_scope.']

    # ---- SimpleTFTPHandler.resolve_path ------------------------------------------------
    h = find_class(t, 'SimpleTFTPHandler')
    rp = find_func(h.body, 'resolve_path')
    if [a.arg for a in rp.args.args] != ['self', 'filename']:
        raise TranslateError('resolve_path: signature')
    body = [s for s in rp.body if not (isinstance(s, ast.Expr) and isinstance(s.value, ast.Constant))]
    if len(body) != 2 or not isinstance(body[0], ast.Assign) or not isinstance(body[1], ast.If):
        raise TranslateError('resolve_path: expected `p = ...` then `if ...: return p else: raise PermissionError`')
    asg, test = body
    if ast.unparse(asg.targets[0]) != 'p':
        raise TranslateError('resolve_path: first statement must assign p')
    src = ast.unparse(asg.value)
    if src == '(self.server.base_path / filename).resolve()':
        resolved = True
    elif src == 'self.server.base_path / filename':
        resolved = False
    else:
        raise TranslateError(f'resolve_path: `p = {src}` not understood')
    L.append(f'Definition request_resolved : bool := {coq_bool(resolved)}.')
    if [ast.unparse(s) for s in test.body] != ['return p'] or len(test.orelse) != 1 \
            or not isinstance(test.orelse[0], ast.Raise) \
            or not ast.unparse(test.orelse[0].exc).startswith('PermissionError('):
        raise TranslateError('resolve_path: expected return p / raise PermissionError')
    conj = test.test.values if isinstance(test.test, ast.BoolOp) and isinstance(test.test.op, ast.And) else [test.test]
    conj = [ast.unparse(c) for c in conj]
    if not conj or conj[0] != 'self.server.base_path in p.parents':
        raise TranslateError(f'resolve_path: containment test `{conj[0] if conj else ""}` is not '
                             '`self.server.base_path in p.parents`')
    if conj[1:] == []:
        recheck = False
    elif conj[1:] == ['p == p.resolve(strict=True)']:
        recheck = True
    else:
        raise TranslateError(f'resolve_path: extra conditions {conj[1:]} not understood')
    L.append('Definition containment_is_parents : bool := true.')
    L.append(f'Definition recheck_strict : bool := {coq_bool(recheck)}.')

    # ---- SimpleTFTPServer.__init__ ----------------------------------------------------------
    srv = find_class(t, 'SimpleTFTPServer')
    init = find_func(srv.body, '__init__')
    assigns = [s for s in init.body if isinstance(s, ast.Assign) and ast.unparse(s.targets[0]) == 'self.base_path']
    if len(assigns) != 1:
        raise TranslateError('SimpleTFTPServer.__init__: expected one assignment to self.base_path')
    v = ast.unparse(assigns[0].value)
    if v not in ('Path(base_path).resolve()', 'Path(base_path)'):
        raise TranslateError(f'SimpleTFTPServer.__init__: base_path = {v} not understood')
    L.append(f'Definition base_resolved_at_init : bool := {coq_bool(v.endswith(".resolve()"))}.')
    for node in ast.walk(t):
        if isinstance(node, (ast.Assign, ast.AugAssign)):
            tg = node.targets if isinstance(node, ast.Assign) else [node.target]
            if any(ast.unparse(x).endswith('.base_path') for x in tg) and node is not assigns[0]:
                raise TranslateError('base_path is assigned somewhere else')

    # ---- TFTPClientState opens the resolved path for binary reading -----------------------------
    cs = find_class(t, 'TFTPClientState')
    opens = [ast.unparse(c) for c in ast.walk(find_func(cs.body, '__init__'))
             if isinstance(c, ast.Call) and isinstance(c.func, ast.Attribute) and c.func.attr == 'open']
    if opens != ["path.open('rb')"]:
        raise TranslateError(f'TFTPClientState.__init__: expected a single path.open(\'rb\'), found {opens}')
    L.append('Definition opens_rb : bool := true.')

    # ---- do_RRQ ladder, then TFTPHandler.handle ladder -----------------------------------------
    bh = find_class(t, 'TFTPBaseHandler')
    rrq = find_func(bh.body, 'do_RRQ')
    tries = [s for s in rrq.body if isinstance(s, ast.Try)]
    if len(tries) != 1 or tries[0].finalbody:
        raise TranslateError('do_RRQ: expected one try statement')
    tr = tries[0]
    calls = [ast.unparse(c.func) for c in ast.walk(ast.Module(body=tr.body, type_ignores=[])) if isinstance(c, ast.Call)]
    if 'self.resolve_path' not in calls or 'TFTPClientState' not in calls:
        raise TranslateError('do_RRQ: resolve_path / TFTPClientState are not inside the try body')
    ladder = [handler_code(hd, errors, 'do_RRQ') for hd in tr.handlers]
    th = find_class(t, 'TFTPHandler')
    hd = find_func(th.body, 'handle')
    tries = [s for s in hd.body if isinstance(s, ast.Try)]
    if len(tries) != 1:
        raise TranslateError('handle: expected one try statement')
    outer = [handler_code(x, errors, 'handle') for x in tries[0].handlers]
    if "getattr(self, 'do_' + packet.opcode.name)(packet)" not in ast.unparse(tries[0]):
        raise TranslateError('handle: dispatch to do_<OPCODE> not found in the try body')
    fmt = lambda l: '[' + '; '.join(f'({c}, {coq_N(e)})' for c, e in l) + ']'
    L.append(f'Definition rrq_ladder : list (N * N) := {fmt(ladder)}.')
    L.append(f'Definition handle_ladder : list (N * N) := {fmt(outer)}.')
    return '\n'.join(L) + '\n'
