"""Gen/Netascii.v: facts about netascii.py / tools.BufferedTranscoder / tftpd wiring."""
import ast, os
from translate import *

NAME = 'Netascii'

def emit():
    t = parse('netascii.py')
    tools = parse('tools.py')
    tftpd = parse('tftpd.py')
    tftp_env = module_consts(parse('tftp.py'))
    lines = [HEADER.format(src='netascii.py, tools.py, tftpd.py, server.py')]
    lines.append(f'Definition tftpd_imports_netascii : bool := {coq_bool("netascii" in import_closure("tftpd"))}.')
    lines.append(f'Definition server_imports_netascii : bool := {coq_bool("netascii" in import_closure("server"))}.')
    lines.append(f'Definition codec_registered : bool := {coq_bool(has_module_call(t, "codecs.register(find_netascii)"))}.')
    # find_netascii wiring
    fn = find_func(t.body, 'find_netascii')
    src = ast.unparse(fn)
    wiring = all(s in src for s in (
        "name.lower() == 'netascii'", 'encode=stateless_encode', 'decode=stateless_decode',
        'incrementalencoder=IncrementalEncoder', 'incrementaldecoder=IncrementalDecoder',
        'streamreader=StreamReader', 'streamwriter=StreamWriter'))
    lines.append(f'Definition codec_wiring_standard : bool := {coq_bool(wiring)}.')
    se = ast.unparse(find_func(t.body, 'stateless_encode'))
    sd = ast.unparse(find_func(t.body, 'stateless_decode'))
    lines.append(f'Definition stateless_final : bool := {coq_bool("encode(s, errors, final=True)" in se and "decode(s, errors, final=True)" in sd)}.')
    # BufferedTranscoder.readinto read size
    bt = find_class(tools, 'BufferedTranscoder')
    ri = find_func(bt.body, 'readinto')
    sizes = [const_eval(c.args[0], {}) for c in ast.walk(ri)
             if isinstance(c, ast.Call) and ast.unparse(c.func) == 'self._source.read' and c.args]
    if len(sizes) != 1:
        raise TranslateError('BufferedTranscoder.readinto: expected one sized read')
    lines.append(f'Definition transcoder_chunk : N := {coq_N(sizes[0])}.')
    # TFTPClientState: how the transcoder is constructed
    cs = find_class(tftpd, 'TFTPClientState')
    init = find_func(cs.body, '__init__')
    calls = [c for c in ast.walk(init) if isinstance(c, ast.Call)
             and ast.unparse(c.func) == 'BufferedTranscoder']
    if len(calls) != 1:
        raise TranslateError('TFTPClientState.__init__: expected one BufferedTranscoder call')
    c = calls[0]
    args = [const_eval(a, tftp_env) if not (isinstance(a, ast.Attribute)) else ('expr', ast.unparse(a)) for a in c.args]
    kw = call_kwargs(c, tftp_env)
    ok = (len(args) == 3 and args[0] == ('expr', 'self.source') and args[1] == 'netascii'
          and args[2] == 'ascii' and kw == {'errors': 'replace'})
    lines.append(f'Definition transcoder_args_standard : bool := {coq_bool(ok)}.')
    lines.append(f'Definition linesep_is_lf : bool := {coq_bool(os.linesep == chr(10))}.')
    return '\n'.join(lines) + '\n'

