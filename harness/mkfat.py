import struct
def mkfat(fat_type, n_clusters, spc=1, bps=512, nfats=2, reserved=None, root_entries=64, extra_fat_entries=0, fsinfo=True, label=True):
    """Return bytearray of a freshly formatted FAT volume."""
    if reserved is None:
        reserved = 32 if fat_type == 'fat32' else 1
    bits = {'fat12': 12, 'fat16': 16, 'fat32': 32}[fat_type]
    entries = n_clusters + 2 + extra_fat_entries
    fat_bytes = (entries * bits + 7) // 8
    fat_sectors = (fat_bytes + bps - 1) // bps
    root_sectors = 0 if fat_type == 'fat32' else (root_entries * 32 + bps - 1) // bps
    total = reserved + nfats * fat_sectors + root_sectors + n_clusters * spc
    img = bytearray(total * bps)
    bpb = struct.pack('<3s8sHBHBHHBHHHII', b'\xeb\x3c\x90', b'mkfs.fat', bps, spc, reserved, nfats,
        0 if fat_type == 'fat32' else root_entries,
        total if total < 65536 and fat_type != 'fat32' else 0, 0xF8,
        0 if fat_type == 'fat32' else fat_sectors, 32, 64, 0,
        0 if (total < 65536 and fat_type != 'fat32') else total)
    img[0:len(bpb)] = bpb
    off = len(bpb)
    fstype = {'fat12': b'FAT12   ', 'fat16': b'FAT16   ', 'fat32': b'FAT32   '}[fat_type] if label else b'        '
    if fat_type == 'fat32':
        e32 = struct.pack('<IHHIHH12x', fat_sectors, 0, 0, 2, 1 if fsinfo else 0, 6)
        img[off:off+len(e32)] = e32
        off += len(e32)
    ebpb = struct.pack('<BxB4s11s8s', 0x80, 0x29, b'\x12\x34\x56\x78', b'NO NAME    ', fstype)
    img[off:off+len(ebpb)] = ebpb
    img[510:512] = b'\x55\xaa'
    fat_off = reserved * bps
    for i in range(nfats):
        o = fat_off + i * fat_sectors * bps
        if fat_type == 'fat12':
            img[o:o+3] = b'\xf8\xff\xff'
        elif fat_type == 'fat16':
            img[o:o+4] = b'\xf8\xff\xff\xff'
        else:
            img[o:o+12] = struct.pack('<III', 0x0ffffff8, 0x0fffffff, 0x0fffffff)
    if fat_type == 'fat32' and fsinfo:
        o = bps
        img[o:o+4] = b'RRaA'
        img[o+484:o+488] = b'rrAa'
        img[o+488:o+492] = struct.pack('<I', n_clusters - 1)
        img[o+492:o+496] = struct.pack('<I', 2)
        img[o+508:o+512] = b'\0\0\x55\xaa'
    return img
