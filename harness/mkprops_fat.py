#!/usr/bin/env python3
"""(Re)generate coq/Props/C03.v, C04.v, C10.v from the lemma lists below."""
import mkprops

H_FAT = '''From Coq Require Import List NArith ZArith Bool.
From NV Require Import Lib.Res Gen.Fat Fat.Spec.
From NV Require Import FatTable.Model FatTable.ProofsBase FatTable.ProofsSet32 FatTable.Proofs.
From NV Require Import FatRead.Model FatRead.ProofsBase FatRead.ProofsGeom FatRead.ProofsRead FatRead.ProofsTime FatRead.Proofs.
From NV Require FatDir.Model FatDir.ProofsBase FatDir.ProofsSpec.
From NV Require FatVol.Model FatVol.Spec FatVol.ProofsInv FatVol.ProofsWalk FatVol.ProofsDots FatVol.ProofsEx FatVol.ProofsDotsEx.
Import ListNotations.
Open Scope N_scope.'''

SRC03 = '''
(* constants and layouts regenerated from fat.py / fs.py on every run *)
Theorem C03_source_facts :
  (fat12_min_valid, fat12_max_valid, fat12_end_mark) = (2, 4079, 4095) /\\
  (fat16_min_valid, fat16_max_valid, fat16_end_mark) = (2, 65519, 65535) /\\
  (fat32_min_valid, fat32_max_valid, fat32_end_mark) = (2, 268435439, 268435455) /\\
  (fat12_threshold, fat16_threshold) = (4085, 65525) /\\ fs_default_atime = false /\\
  de_sizeof = 32 /\\ lfn_sizeof = 32 /\\ bpb_sizeof = 36 /\\ lfn_checksum_standard = true.
Proof. repeat split; reflexivity. Qed.
Print Assumptions C03_source_facts.
'''

mkprops.emit('/verif/coq/Props/C03.v',
    'C03 -- Reading a FAT volume yields exactly what its on-disk structures define. Statements only.',
    H_FAT,
    [('C03_fat_entry_spec', 'FatTable.Proofs.get_spec', 'the FAT entry the code reads = the bit-level entry of the specification, for all three widths, every table, every index in range (odd/even and byte-straddling cases included)'),
     ('C03_fat_entry_index_error', 'FatTable.Proofs.get_index_error', None),
     ('C03_geometry_spec', 'FatRead.ProofsGeom.geometry_spec', 'region offsets, sizes, cluster count and FAT type computed as FatFileSystem.__init__ does = the specification reader, for every header in the common domain'),
     ('C03_cluster_offset_spec', 'FatRead.ProofsGeom.cluster_offset_spec', None),
     ('C03_read_refines', 'FatRead.ProofsRead.run_file_refines', 'ANY sequence of seek / read / readinto / readall on a file = the same sequence on the content held in memory'),
     ('C03_raw_read_spec', 'FatRead.ProofsRead.raw_read_spec', None),
     ('C03_read_loop_refines', 'FatRead.ProofsRead.read_loop_refines', 'repeating raw reads (what io.BufferedReader does) yields exactly the requested slice'),
     ('C03_reads_preserve_file', 'FatRead.ProofsRead.run_preserves_file', 'reading never changes map or size (and no data area occurs in any result type)'),
     ('C03_timestamp_spec', 'FatRead.ProofsTime.timestamp_spec', None),
     ('C03_path_resolution_refines', 'FatVol.ProofsDots.resolved_refines', 'FatPath resolution of ANY component list -- "." and ".." included, which _resolve looks up as the dot entries stored in each sub-directory -- on a consistent volume is the walk over the plain tree the volume holds with a stack of the directories passed: "." stays, ".." pops, and at the root neither exists'),
     ('C03_path_resolution_confined', 'FatVol.ProofsDots.resolved_confined', 'whatever a path spells, what it reaches is a node of this volume s tree'),
     ('C03_path_is_its_normal_form', 'FatVol.ProofsDots.resolved_is_normalised_path', 'what a dotted path reaches is what its dot-free normal form (Spec.lexnorm: "." dropped, "x/.." cancelled, both kept at the root) reaches in the volume s tree'),
     ('C03_dot_skipped', 'FatVol.ProofsDots.twalkd_dot', None),
     ('C03_dotdot_cancels', 'FatVol.ProofsDots.twalkd_dotdot', 'lexical normalisation is sound below the root: "x/.." cancels when x names a directory'),
     ('C03_dots_example', 'FatVol.ProofsDotsEx.FV_dots_example', 'non-vacuity: a volume grown by a guarded history is in VolInv; /d/e/../f.txt reaches the 700-byte file, "." and ".." at the root reach nothing, a file is not a directory'),
     ('C03_directory_decode_spec', 'FatDir.ProofsSpec.decode_agrees_with_spec', 'the directory decoder of the code (_group_entries / _split_entries / _join_lfn_entries) = the specification decoder on every directory region whose long-name runs are valid or absent: same names, aliases, raw entries, offsets, no orphans'),
    ], tail=SRC03)

H_ALLOC = '''From Coq Require Import List NArith ZArith Bool String.
From NV Require Import Lib.Res Gen.Fat Fat.Spec.
From NV Require Import FatTable.Model FatTable.ProofsBase FatTable.ProofsSet32 FatTable.Proofs.
From NV Require Import FatAlloc.Model FatAlloc.ProofsBase FatAlloc.ProofsGrow FatAlloc.ProofsOps FatAlloc.ProofsWrite FatAlloc.ProofsFrame FatAlloc.Proofs.
Import ListNotations.
Open Scope N_scope.'''

H_DATA = H_ALLOC.replace('Import ListNotations.', 'From NV Require Import FatRead.Model FatData.Model FatData.Spec FatData.ProofsBase FatData.Proofs.\nFrom NV Require FatDir.Model FatDir.ProofsBase FatDir.ProofsView FatDir.ProofsClean FatDir.ProofsOps FatDir.ProofsAppend FatDir.ProofsMain.\nFrom NV Require FatVol.Model FatVol.Spec FatVol.ProofsBase FatVol.ProofsInv FatVol.Proofs.\nImport ListNotations.')

mkprops.emit('/verif/coq/Props/C04.v',
    'C04 -- Any history of mutations leaves a consistent volume with expected content. Statements only.\n'
    '   Stage T (table, byte level) and stage F (files, chain level) are theorems; directory and path operations\n'
    '   are covered by the correspondence / oracle (history_refines is therefore PARTIAL, see DESIGN.md).',
    H_DATA,
    [('C04_set_get_same', 'FatTable.Proofs.set_get_same', 'stage T: a stored FAT entry reads back, on bytes, for all widths'),
     ('C04_set_get_other', 'FatTable.Proofs.set_get_other', 'stage T: every other entry is untouched (FAT12 nibble-sharing neighbour included)'),
     ('C04_set_all_copies', 'FatTable.Proofs.set_all_copies', 'stage T: all FAT copies stay identical'),
     ('C04_set32_top_bits', 'FatTable.ProofsSet32.set32_top_bits', None),
     ('C04_truncate_wf', 'FatAlloc.Proofs.FA_truncate_wf', 'stage F: truncate (shrink, grow, to zero) keeps the file well-formed, with frame: no other entry changes'),
     ('C04_write_wf', 'FatAlloc.Proofs.FA_write_wf', None),
     ('C04_close_wf', 'FatAlloc.Proofs.FA_close_wf', None),
     ('C04_unlink_frees_all', 'FatAlloc.Proofs.FA_unlink_frees_all', 'unlink frees exactly the chain (regression theorem for the chain-leak defect)'),
     ('C04_two_files_frame', 'FatAlloc.Proofs.FA_two_files_frame', None),
     ('C04_data_step_refines', 'FatData.Proofs.FD_step_refines', 'stage D (bytes of one open file): every seek / write / truncate / read step on the clusters = the same step on a plain byte array (abs = first `size` bytes of the chain s clusters)'),
     ('C04_data_run_refines', 'FatData.Proofs.FD_run_refines', 'stage D: ANY history of such steps on one handle, failed steps included, refines the byte-array specification and keeps the invariant'),
     ('C04_data_run_refines_ok', 'FatData.Proofs.FD_run_refines_ok', None),
     ('C04_holes_read_zero', 'FatData.Proofs.FD_holes_read_zero', 'a write past end of file: the hole reads as zeros whatever stale bytes the clusters held'),
     ('C04_other_clusters_untouched', 'FatData.Proofs.FD_other_clusters_untouched', 'frame: clusters outside the file s chain keep their bytes, foreign FAT entries are unchanged'),
     ('C04_dir_update_in_place', 'FatDir.ProofsOps.setitem_existing_updates_in_place', 'stage E (directory entries): storing an existing name (any case variant or its alias) rewrites exactly that one record, keeping the stored name fields and attr2'),
     ('C04_dir_delitem_spec', 'FatDir.ProofsOps.delitem_spec', 'stage E: deleting removes exactly that group from the listing; every other group is byte-identical and every other key resolves as before'),
     ('C04_path_step_inv', 'FatVol.Proofs.FV_step_inv', 'stage P (path operations over the whole volume at record level: FAT values + every directory s decoded entries, dead slots, dot entries): every operation -- open(w/x/a/r+)+action+close, touch, unlink, mkdir, rmdir, rename in all its branches -- with every outcome, ENOSPC included, preserves VolInv: all chains well-formed and pairwise disjoint, no lost cluster, sizes match chains, empty files own no cluster, dot entries right, names and aliases unique, the directory graph is a tree'),
     ('C04_path_step_refines', 'FatVol.Proofs.FV_step_refines', 'stage P: outcome and tree of every operation are those of the plain in-memory tree model (the same rules as harness/fatops.py)'),
     ('C04_path_failure_keeps_tree', 'FatVol.Proofs.FV_failure_keeps_tree', None),
     ('C04_path_history_inv', 'FatVol.Proofs.FV_history_inv', 'stage P: ANY history'),
     ('C04_path_history_refines', 'FatVol.Proofs.FV_history_refines', 'stage P: ANY history without ENOSPC refines the plain tree model and ends in VolInv (history_refines at record level)'),
     ('C04_path_rename_refines', 'FatVol.Proofs.FV_rename_refines', None),
     ('C04_history_partial', 'FatAlloc.Proofs.FA_history', 'ANY sequence of file operations on any family of files sharing one table: every file stays well-formed, chains stay disjoint, foreign entries (directories, reserved) keep their value'),
    ], tail='''
Theorem C04_source_facts :
  (fat12_min_valid, fat12_max_valid, fat12_end_mark) = (2, 4079, 4095) /\\
  (fat16_min_valid, fat16_max_valid, fat16_end_mark) = (2, 65519, 65535) /\\
  (fat32_min_valid, fat32_max_valid, fat32_end_mark) = (2, 268435439, 268435455).
Proof. repeat split; reflexivity. Qed.
Print Assumptions C04_source_facts.

(* the path operations that FatVol/Model.v follows by hand (resolution, the creating branch of open, the five mutators):
   canonical digests regenerated from path.py on every run -- any edit of their logic breaks this obligation (fail closed;
   the correspondence then looks for a concrete input) *)
Theorem C04_path_source_facts :
  canon_FatPath_priv_resolve = "7c8f179242b07197"%string /\\
  canon_FatPath_priv_from_entry = "8db45540687235cb"%string /\\
  canon_FatPath_priv_refresh = "437ddfd4dccd5bcb"%string /\\
  canon_FatPath_open = "3a9fbde66da2925d"%string /\\
  canon_FatPath_unlink = "a4ee3c1b9f81d153"%string /\\
  canon_FatPath_rename = "2f61c57c08072ff0"%string /\\
  canon_FatPath_mkdir = "8b0eaad0a71795d8"%string /\\
  canon_FatPath_rmdir = "cd50a252695244d6"%string /\\
  canon_FatPath_touch = "1c2f44c844ebe6d8"%string /\\
  canon_FatPath_priv_must_be_named = "59d9a08179330008"%string /\\
  canon_FatPath_resolve = "e816e2b776241143"%string /\\
  canon_get_parts = "fac8ba5c77581023"%string /\\
  fatpath_mutators_refuse_dot_names = true.
Proof. repeat split; reflexivity. Qed.
Print Assumptions C04_path_source_facts.
''')

mkprops.emit('/verif/coq/Props/C10.v',
    'C10 -- Running out of space fails cleanly with ENOSPC and a consistent volume. Statements only.',
    H_DATA,
    [('C10_free_in_data_area', 'FatAlloc.Proofs.FA_free_in_data_area', 'only clusters that exist in the data area (and are free) are ever handed out'),
     ('C10_free_nodup', 'FatAlloc.Proofs.FA_free_nodup', 'one scan never yields a cluster twice (FAT32 hint wrap-around included)'),
     ('C10_free_complete', 'FatAlloc.Proofs.FA_free_complete', 'ENOSPC only when there really is no free cluster'),
     ('C10_truncate_enospc', 'FatAlloc.Proofs.FA_truncate_enospc', 'growing truncate fails exactly when too few clusters are free, and then with ENOSPC (all or nothing: the state is returned unchanged)'),
     ('C10_truncate_enospc_genuine', 'FatAlloc.Proofs.FA_truncate_enospc_genuine', None),
     ('C10_alloc_one_enospc', 'FatAlloc.Proofs.FA_alloc_one_enospc', None),
     ('C10_write_enospc_wf', 'FatAlloc.Proofs.FA_write_wf', 'a write that runs out of space leaves the file well-formed, holding a prefix, size and chain in agreement'),
     ('C10_truncate_wf', 'FatAlloc.Proofs.FA_truncate_wf', None),
     ('C10_data_step_enospc', 'FatData.Proofs.FD_step_enospc', 'at byte level: a step that fails does so with ENOSPC, keeps the invariant; a failed truncate changes nothing, a failed write keeps a strict prefix of the buffer'),
     ('C10_clean_preserves_listing', 'FatDir.ProofsClean.clean_preserves_listing', 'compaction of a directory (run when a fixed root is full) keeps the listing and every look-up, leaves no deleted record before the new end, zero-fills the tail'),
     ('C10_root_full_enospc', 'FatDir.ProofsMain.root_full_enospc', 'a fixed root: ENOSPC exactly when, even after compaction, the new records plus the end-of-directory record do not fit; the directory then lists and resolves exactly as before'),
     ('C10_path_history_inv', 'FatVol.Proofs.FV_history_inv', 'whole-volume invariant (no lost / shared cluster, sizes match chains, tree-shaped) after ANY history of path operations, whatever fails with ENOSPC on the way (mkdir releases its cluster, a failed unlink / rmdir changes nothing)'),
     ('C10_unlink_fail_unchanged', 'FatVol.Proofs.FV_unlink_fail_unchanged', None),
     ('C10_rmdir_fail_unchanged', 'FatVol.Proofs.FV_rmdir_fail_unchanged', None),
     ('C10_history_wf', 'FatAlloc.Proofs.FA_history', None),
    ], tail='''
Theorem C10_source_facts :
  (fat12_min_valid, fat12_max_valid) = (2, 4079) /\\ (fat16_min_valid, fat16_max_valid) = (2, 65519) /\\
  (fat32_min_valid, fat32_max_valid) = (2, 268435439).
Proof. repeat split; reflexivity. Qed.
Print Assumptions C10_source_facts.
''')
print('ok')

H_NAMES = '''From Coq Require Import List NArith ZArith Bool.
From NV Require Import Lib.Res Gen.Fat FatNames.Model FatNames.ProofsAlias FatNames.ProofsValid FatNames.ProofsLfn.
From NV Require Fat.Spec.
From NV Require FatDir.Model FatDir.ProofsBase FatDir.ProofsMain.
Import ListNotations.
Open Scope N_scope.'''

mkprops.emit('/verif/coq/Props/C11.v',
    'C11 -- Names round-trip exactly and are stored as standard VFAT entries. Statements only.\n'
    '   Unicode upper-casing is CPython s: it enters as the explicit argument [up] (see DESIGN.md).',
    H_NAMES,
    [('C11_lfn_valid_spec', 'FatNames.ProofsValid.lfn_valid_spec', 'valid names = the VFAT rule (deny-list regenerated from fat.py)'),
     ('C11_invalid_rejected', 'FatNames.ProofsValid.invalid_rejected', 'invalid names are rejected with ValueError and nothing is produced'),
     ('C11_dot_names_rejected', 'FatNames.ProofsValid.dot_names_rejected', '"." and ".." are references, never names: no entry is created under them (the guard of the FatPath mutators is a fact regenerated from path.py)'),
     ('C11_too_long_rejected', 'FatNames.ProofsValid.too_long_rejected', None),
     ('C11_name_roundtrip', 'FatNames.ProofsLfn.name_roundtrip', 'the independent specification reader (Fat.Spec.decode_dir) recovers exactly the name from the records written'),
     ('C11_lfn_entries_standard', 'FatNames.ProofsLfn.lfn_entries_standard', 'order, terminator, padding, checksum, at most 20 records'),
     ('C11_pure_83_no_lfn', 'FatNames.ProofsValid.pure_83_no_lfn', 'pure 8.3 names (optionally all-lower base / extension) need no long-name records'),
     ('C11_short_only_shows_name', 'FatNames.ProofsValid.short_only_shows_name', None),
     ('C11_alias_standard', 'FatNames.ProofsValid.alias_standard', 'the alias uses only legal 8.3 bytes, 8+3 long'),
     ('C11_checksum_standard', 'FatNames.ProofsValid.checksum_standard', None),
     ('C11_created_entry_found_no_shadowing', 'FatDir.ProofsMain.setitem_new_then_getitem', 'a new name is appended: every case variant of it resolves to the new entry, every key that resolved before still resolves to the same entry, the listing grows by exactly that name (no shadowing, no merging)'),
     ('C11_alias_unique', 'FatNames.ProofsAlias.alias_unique', 'the alias differs from every existing alias and long name of the directory'),
     ('C11_unique_sfn_least', 'FatNames.ProofsAlias.unique_sfn_least', 'the numeric tail is the least one not in use'),
     ('C11_unique_sfn_enospc', 'FatNames.ProofsAlias.unique_sfn_enospc', None),
     ('C11_lookup_stable', 'FatNames.ProofsValid.lookup_stable', 'adding an entry never changes what an existing name resolves to (no shadowing)'),
     ('C11_lookup_found', 'FatNames.ProofsValid.lookup_found', None),
    ], tail='''
Theorem C11_source_facts :
  lfn_valid_guards_standard = true /\\ lfn_valid_anchored_end = true /\\ max_sfn_suffix = 65535 /\\
  lfn_checksum_standard = true /\\ lfn_sizeof = 32 /\\ de_sizeof = 32.
Proof. repeat split; reflexivity. Qed.
Print Assumptions C11_source_facts.
''')
print('C11 ok')
