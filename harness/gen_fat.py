"""Gen/Fat.v: struct layouts (field offsets) of nobodd/fat.py and constants / decision
expressions of nobodd/fs.py used by the FAT models."""
import ast, re, struct
from translate import *

NAME = 'Fat'

WIDTH = {'B': 1, 'H': 2, 'I': 4, 'Q': 8}


def layout(desc):
    """[(label or None, offset, width, kind)] from a 'fmt label' table; fail closed"""
    out, off = [], 0
    for line in desc.splitlines():
        if not line.strip():
            continue
        fmt, label = line.split(None, 1)
        label = label.strip()
        m = re.fullmatch(r'(\d*)([BHIQsx])', fmt)
        if not m:
            raise TranslateError(f'unsupported struct format {fmt!r}')
        n, k = m.groups()
        if k in WIDTH:
            if n not in ('', '1'):
                raise TranslateError(f'repeat count on integer field {fmt!r}')
            out.append((label, off, WIDTH[k], 'int')); off += WIDTH[k]
        elif k == 's':
            w = int(n or 1)
            out.append((label, off, w, 'bytes')); off += w
        else:
            w = int(n or 1)
            off += w
    return out, off


def emit():
    t = parse('fat.py')
    env = module_consts(t)
    L = [HEADER.format(src='fat.py, fs.py, path.py')]
    L.append('Open Scope N_scope.')
    tables = {'BIOS_PARAMETER_BLOCK': 'bpb', 'EXTENDED_BIOS_PARAMETER_BLOCK': 'ebpb',
              'FAT32_BIOS_PARAMETER_BLOCK': 'f32', 'FAT32_INFO_SECTOR': 'info',
              'DIRECTORY_ENTRY': 'de', 'LONG_FILENAME_ENTRY': 'lfn'}
    for name, pre in tables.items():
        if name not in env:
            raise TranslateError(f'{name} not found')
        fields, size = layout(env[name])
        L.append(f'Definition {pre}_sizeof : N := {coq_N(size)}.')
        # python: struct.calcsize must agree (the classes use formats(desc) with prefix "<")
        for label, off, w, kind in fields:
            L.append(f'Definition {pre}_{label} : N * N := ({coq_N(off)}, {coq_N(w)}).')
    # prefix used by tools.formats
    tools = parse('tools.py')
    fm = find_func(tools.body, 'formats')
    pref = fm.args.defaults[0]
    if not (isinstance(pref, ast.Constant) and pref.value == '<'):
        raise TranslateError('struct prefix is not "<"')
    # lfn_checksum: result = (((result & 1) << 7) + (result >> 1) + char) & 0xFF
    ck = find_func(t.body, 'lfn_checksum')
    body = [ast.unparse(n) for n in ck.body if not (isinstance(n, ast.Expr) and isinstance(n.value, ast.Constant))]
    std = body == ['result = 0', 'for char in sfn + ext:\n    result = ((result & 1) << 7) + (result >> 1) + char & 255', 'return result']
    L.append(f'Definition lfn_checksum_standard : bool := {coq_bool(std)}.')
    # lfn_valid: the regular expression and the three guards
    lv = ast.unparse(find_func(t.body, 'lfn_valid'))
    guards = ("not s.startswith(' ')" in lv and "not s.endswith((' ', '.'))" in lv)
    L.append(f'Definition lfn_valid_guards_standard : bool := {coq_bool(guards)}.')
    rx = None
    for n in t.body:
        if isinstance(n, ast.Assign) and ast.unparse(n.targets[0]) == 'lfn_valid.regex':
            rx = n.value
    if rx is None or not isinstance(rx, ast.Call) or not isinstance(rx.args[0], ast.Constant):
        raise TranslateError('lfn_valid.regex not found')
    pat = rx.args[0].value
    L.append(f'Definition lfn_valid_regex_text : list N := {coq_bytes(pat)}.')
    m = re.fullmatch(r'\^\[\^(.*)\]\+(\$|\\Z)', pat)
    if not m:
        raise TranslateError(f'lfn_valid regex has an unexpected shape: {pat!r}')
    cls = m.group(1)
    # deny-list character class: ranges \xNN-\xNN and single (possibly escaped) characters
    denied, i = [], 0
    def one(i):
        if cls[i] == '\\':
            if cls[i + 1] == 'x':
                return int(cls[i + 2:i + 4], 16), i + 4
            return ord(cls[i + 1]), i + 2
        return ord(cls[i]), i + 1
    while i < len(cls):
        a, i = one(i)
        if i < len(cls) - 1 and cls[i] == '-':
            b, i = one(i + 1)
            denied.extend(range(a, b + 1))
        else:
            denied.append(a)
    L.append(f'Definition lfn_valid_denied_chars : list N := {coq_bytes(sorted(set(denied)))}.')
    L.append(f'Definition lfn_valid_anchored_end : bool := {coq_bool(m.group(2) == chr(92) + "Z")}.')
    L.extend(emit_fs())
    L.extend(emit_path())
    return '\n'.join(L) + '\n'


def emit_path():
    """FatPath: '.' and '..' pass the constructor unvalidated (they are references while walking); every call that creates,
    removes or moves an entry under the FINAL component must refuse them first (_must_be_named, ValueError)"""
    t = parse('path.py')
    fp = find_class(t, 'FatPath')
    init = ast.unparse(find_func(fp.body, '__init__'))
    skips = "elif part in ('.', '..'):\n        continue" in init.replace('    ' * 3, '    ') or "part in ('.', '..')" in init
    ok = False
    try:
        g = find_func(fp.body, '_must_be_named')
        body = [n for n in g.body if not (isinstance(n, ast.Expr) and isinstance(n.value, ast.Constant))]
        ok = (len(body) == 1 and isinstance(body[0], ast.If) and ast.unparse(body[0].test) == "self.name in ('.', '..')"
              and len(body[0].body) == 1 and isinstance(body[0].body[0], ast.Raise)
              and ast.unparse(body[0].body[0].exc).startswith('ValueError(') and not body[0].orelse)
    except TranslateError:
        ok = False
    def guarded_before(fname, marker):
        # the call self._must_be_named() occurs, and textually before the first store into a directory index / cluster release
        src = ast.unparse(find_func(fp.body, fname))
        i = src.find('self._must_be_named()')
        j = min([k for k in (src.find(m) for m in marker) if k >= 0] or [-1])
        return i >= 0 and j >= 0 and i < j
    sites = ok and guarded_before('open', ['parent._index[self.name] = entry']) \
        and guarded_before('mkdir', ['parent.mkdir(', 'fs.fat.free()', 'parent._index[self.name] = entry']) \
        and guarded_before('rmdir', ['del parent._index[self.name]']) \
        and guarded_before('rename', ['target._index[target.name] = source_entry', 'target.touch()'])
    L = [f'Definition fatpath_skips_dot_validation : bool := {coq_bool(skips)}.',
         f'Definition fatpath_mutators_refuse_dot_names : bool := {coq_bool(sites)}.']
    # canonical forms (docstrings dropped) of the path operations that FatVol/Model.v follows by hand -- resolution, the five
    # mutators and the creating branch of open: any edit of their logic breaks the cone of C04 (fail closed)
    import hashlib
    def canon(fn):
        f = find_func(fp.body, fn)
        body = [n for n in f.body if not (isinstance(n, ast.Expr) and isinstance(n.value, ast.Constant) and isinstance(n.value.value, str))]
        return hashlib.sha256('\n'.join(ast.unparse(n) for n in body).encode()).hexdigest()[:16]
    for fn in ('_resolve', '_from_entry', '_refresh', 'open', 'unlink', 'rename', 'mkdir', 'rmdir', 'touch', '_must_be_named', 'resolve'):
        L.append(f'Definition canon_FatPath_{("priv_" + fn[1:]) if fn.startswith("_") else fn} : string := "{canon(fn)}"%string.')
    L.append(f'Definition canon_get_parts : string := "{hashlib.sha256(ast.unparse(find_func(t.body, "get_parts")).encode()).hexdigest()[:16]}"%string.')
    # sh.py reaches the partitions through the public path API only: no attribute starting with "_" of a path / file-system
    # object, no fs.fat / fs.clusters / open_dir / open_entry (then a shell command is a history of path operations)
    sh = parse('sh.py')
    bad = []
    for n in ast.walk(sh):
        if isinstance(n, ast.Attribute):
            if n.attr in ('fat', 'clusters', 'open_dir', 'open_entry', 'open_file', '_index', '_entry', '_fs', '_root', '_data'):
                bad.append(n.attr)
            elif n.attr.startswith('_') and not n.attr.startswith('__') and not (isinstance(n.value, ast.Name) and n.value.id in ('lang', 'self', 'config', 'sys')):
                bad.append(n.attr)
    L.append(f'Definition sh_uses_public_path_api_only : bool := {coq_bool(not bad)}.')
    return L


def emit_fs():
    t = parse('fs.py')
    L = []
    for cls, pre in (('Fat12Table', 'fat12'), ('Fat16Table', 'fat16'), ('Fat32Table', 'fat32')):
        c = class_consts(find_class(t, cls))
        for k in ('min_valid', 'max_valid', 'end_mark'):
            L.append(f'Definition {pre}_{k} : N := {coq_N(c[k])}.')
    d = class_consts(find_class(t, 'FatDirectory'))
    L.append(f'Definition max_sfn_suffix : N := {coq_N(d["MAX_SFN_SUFFIX"])}.')
    # fat_type_from_count thresholds
    f = ast.unparse(find_func(t.body, 'fat_type_from_count'))
    m = re.search(r"'fat12' if data_clusters < (\d+) else 'fat16' if data_clusters < (\d+) else 'fat32'", f)
    if not m:
        raise TranslateError('fat_type_from_count thresholds')
    L.append(f'Definition fat12_threshold : N := {coq_N(int(m.group(1)))}.')
    L.append(f'Definition fat16_threshold : N := {coq_N(int(m.group(2)))}.')
    # dirty / damaged bits
    fsc = find_class(t, 'FatFileSystem')
    src = ast.unparse(fsc)
    m16 = re.search(r"self\._fat_type == 'fat16' and self\._fat\[1\] & (\d+)", src)
    m32 = re.search(r"self\._fat_type == 'fat32' and self\._fat\[1\] & (\d+)", src)
    if not (m16 and m32):
        raise TranslateError('dirty bits')
    L.append(f'Definition fat16_clean_bit : N := {coq_N(int(m16.group(1)))}.')
    L.append(f'Definition fat32_clean_bit : N := {coq_N(int(m32.group(1)))}.')
    init = find_func(fsc.body, '__init__')
    dflt = {a.arg: d for a, d in zip(init.args.args[-len(init.args.defaults):], init.args.defaults)}
    L.append(f'Definition fs_default_atime : bool := {coq_bool(const_eval(dflt["atime"], {}))}.')
    return L
