"""Helpers around the extracted Coq FAT specification (runner 'Fat'): decoding of its
replies, and dumping a nobodd FatFileSystem through the public path API."""
import datetime as dt, io, warnings
import lib

PROBLEMS = {1: 'FAT copies differ', 2: 'file chain not terminated / out of range', 3: 'file chain length differs from ceil(size/cluster size)',
            4: 'empty file owns a cluster', 5: 'directory chain bad', 6: 'cluster used twice', 7: 'lost cluster',
            8: "'.' entry wrong", 9: "'..' entry wrong", 10: 'duplicate name in directory', 11: 'orphaned / invalid long-name records',
            12: 'FSInfo free count wrong', 13: 'dirty flag set', 14: 'illegal character in 8.3 alias',
            15: 'directory entry has non-zero size', 16: 'non-empty file without a cluster', 17: 'nesting too deep / directory cycle'}


def text(v):
    return lib.as_text(v)


def dec_entry(e):
    return dict(name=text(e[0]), sfn=text(e[1]), attr=e[2], size=e[3], cluster=e[4],
                times=tuple(e[5][:6]), attr2=e[5][6], nlfn=e[6], off=e[7])


def dec_node(n):
    if n[0] == 0:
        d = dec_entry(n[1])
        d.update(kind='file', data=bytes(n[2]), chain=list(n[3]), cend=n[4])
        return d
    d = dec_entry(n[1][0]) if n[1] else dict(name='', sfn='', attr=0x10, size=0, cluster=0, times=None, attr2=0, nlfn=0, off=0)
    d.update(kind='dir', children=[dec_node(k) for k in n[2]], chain=list(n[3]), cend=n[4], orphans=n[5],
             dots=[dec_entry(x) for x in n[6]])
    return d


def spec_abs(R, img):
    try:
        r = R.res('abs', bytes(img))
    except lib.Hang:
        return None, None
    if r[0] != 'ok':
        return None, None
    g = r[1][0]
    geom = dict(bits=g[0], bps=g[1], spc=g[2], cs=g[3], fat_off=g[4], fat_size=g[5], nfats=g[6], root_off=g[7],
                root_size=g[8], root_cluster=g[9], data_off=g[10], count=g[11], info_off=(g[12][0] if g[12] else None), total=g[13])
    return geom, dec_node(r[1][1])


def spec_wf(R, img):
    try:
        r = R.res('wf', bytes(img))
    except lib.Hang:
        return [('unreadable', 'the specification reader did not finish on this image (runaway directory structure)')]
    if r[0] != 'ok':
        return [('unreadable', r[1])]
    return [(PROBLEMS.get(c, c), d) for c, d in r[1]]


def fat_date(d, t=0, cs=0):
    ms = cs * 10
    try:
        return dt.datetime(1980 + (d >> 9), (d >> 5) & 15, d & 31, t >> 11, (t >> 5) & 63, (t & 31) * 2 + ms // 1000,
                           (ms % 1000) * 1000, tzinfo=dt.timezone.utc).timestamp()
    except ValueError:
        return None


def canon_tree(n):
    """what C03 compares: names, kinds, sizes, timestamps (as POSIX stamps), bytes, in directory order"""
    if n['kind'] == 'file':
        cd, ct, ccs, ad, md, mt = n['times']
        return ('F', n['name'], n['size'], (fat_date(ad), fat_date(md, mt), fat_date(cd, ct, ccs)), n['data'])
    return ('D', n['name'], [canon_tree(k) for k in n['children']])


def dump_nobodd(fs, read=True):
    """walk a nobodd FatFileSystem through the public path API"""
    def walk(p, name):
        if p.is_dir():
            kids = []
            for c in p.iterdir():
                kids.append(walk(c, c.name))
            return ('D', name, kids)
        st = p.stat()
        data = None
        if read:
            with p.open('rb') as f:
                data = f.read()
        return ('F', name, st.st_size, (st.st_atime, st.st_mtime, st.st_ctime), data)
    with lib.time_limit(30, 'walking the volume'), warnings.catch_warnings():
        warnings.simplefilter('ignore')
        return walk(fs.root, '')


def flat(tree, prefix=''):
    """{path: node tuple} for files and dirs"""
    out = {}
    def go(n, path):
        out[path or '/'] = n
        if n[0] == 'D':
            for k in n[2]:
                go(k, path + '/' + k[1])
    go(tree, prefix)
    return out
